#!/usr/bin/env python3
"""Mutation self-test of the checks (not a registered command).

Generates small syntactic mutants of /repo's package in a scratch worktree
(outside /repo and /verif), keeps those that still pass the existing test suite,
runs the quick checks against each survivor via VERIF_REPO_DIR, and writes a
report.  Usage: tools/mutants.py <outdir> [max_mutants] [seed]"""
import ast
import json
import os
import random
import subprocess
import sys
import time

REPO = "/repo"
VERIF = os.path.dirname(os.path.dirname(os.path.abspath(__file__)))
PKG = "checkpoint_schedules"
FILES = ["schedule.py", "basic_schedules.py", "multistage.py", "mixed.py", "twolevel_binomial.py",
         "hrevolve.py", "hrevolve_sequences/hrevolve.py", "hrevolve_sequences/revolve.py",
         "hrevolve_sequences/disk_revolve.py", "hrevolve_sequences/periodic_disk_revolve.py",
         "hrevolve_sequences/basic_functions.py"]
CMP = {ast.Lt: ast.LtE, ast.LtE: ast.Lt, ast.Gt: ast.GtE, ast.GtE: ast.Gt, ast.Eq: ast.NotEq, ast.NotEq: ast.Eq}
SKIP_FUNCS = {"__repr__", "cost", "convert_old_to_branch", "convert_new_to_branch", "canonical",
              "concat_sequence_hierarchic", "from_list_to_string", "compute_mx", "mx_close_formula",
              "compute_mmax", "rel_cost_x", "set_to_print", "remove_last_discard", "next_operation",
              "first_operation"}


class Collector(ast.NodeVisitor):
    def __init__(self):
        self.sites = []
        self.fn = []

    def visit_FunctionDef(self, node):
        if node.name in SKIP_FUNCS:
            return
        self.fn.append(node.name)
        self.generic_visit(node)
        self.fn.pop()

    def visit_Compare(self, node):
        if len(node.ops) == 1 and type(node.ops[0]) in CMP and self.fn:
            self.sites.append(("cmp", node.lineno, node.col_offset, type(node.ops[0]).__name__))
        self.generic_visit(node)

    def visit_BinOp(self, node):
        if self.fn and isinstance(node.op, (ast.Add, ast.Sub)) and isinstance(node.right, ast.Constant) \
                and node.right.value == 1:
            self.sites.append(("pm1", node.lineno, node.col_offset, type(node.op).__name__))
        self.generic_visit(node)

    def visit_Constant(self, node):
        if self.fn and node.value is True or node.value is False:
            if self.fn:
                self.sites.append(("bool", node.lineno, node.col_offset, str(node.value)))

    def visit_Name(self, node):
        if self.fn and node.id in ("Copy", "Move") and isinstance(node.ctx, ast.Load):
            self.sites.append(("copymove", node.lineno, node.col_offset, node.id))


class Mutator(ast.NodeTransformer):
    def __init__(self, site):
        self.site = site
        self.done = False

    def _hit(self, node, kind):
        return (not self.done and self.site[0] == kind and node.lineno == self.site[1]
                and node.col_offset == self.site[2])

    def visit_Compare(self, node):
        self.generic_visit(node)
        if self._hit(node, "cmp"):
            node.ops = [CMP[type(node.ops[0])]()]
            self.done = True
        return node

    def visit_BinOp(self, node):
        self.generic_visit(node)
        if self._hit(node, "pm1"):
            self.done = True
            return node.left           # drop the +-1
        return node

    def visit_Constant(self, node):
        if self._hit(node, "bool"):
            self.done = True
            return ast.copy_location(ast.Constant(not node.value), node)
        return node

    def visit_Name(self, node):
        if self._hit(node, "copymove"):
            self.done = True
            return ast.copy_location(ast.Name("Move" if node.id == "Copy" else "Copy", node.ctx), node)
        return node


def sh(cmd, **kw):
    return subprocess.run(cmd, shell=True, capture_output=True, text=True, **kw)


def main():
    out = sys.argv[1]
    maxm = int(sys.argv[2]) if len(sys.argv) > 2 else 60
    seed = int(sys.argv[3]) if len(sys.argv) > 3 else 1
    os.makedirs(out, exist_ok=True)
    wt = os.path.join(out, "tree")
    if not os.path.isdir(wt):
        sh("git -C %s worktree add -q --detach %s HEAD" % (REPO, wt))
    sites = []
    for f in FILES:
        src = open(os.path.join(REPO, PKG, f)).read()
        c = Collector()
        c.visit(ast.parse(src))
        sites += [(f,) + s for s in c.sites]
    random.Random(seed).shuffle(sites)
    report = []
    env = dict(os.environ, PYTHONPATH=wt)
    checks = ["C%02d" % i for i in range(1, 20) if i != 15]
    n = 0
    for f, kind, line, col, what in sites:
        if n >= maxm:
            break
        sh("git -C %s checkout -q -- ." % wt)
        path = os.path.join(wt, PKG, f)
        tree = ast.parse(open(path).read())
        m = Mutator((kind, line, col, what))
        tree = m.visit(tree)
        if not m.done:
            continue
        ast.fix_missing_locations(tree)
        open(path, "w").write(ast.unparse(tree))
        # fast prefilter, then the full suite
        p = sh("cd %s && /venv/bin/python -m pytest -q -x -p no:cacheprovider -k 'not 250 and not 100' 2>&1 | tail -1" % wt, env=env)
        if "failed" in p.stdout or "error" in p.stdout.lower():
            continue
        p = sh("cd %s && /venv/bin/python -m pytest -q -x -p no:cacheprovider -n 8 2>&1 | tail -1" % wt, env=env)
        if "82 passed" not in p.stdout:
            continue
        n += 1
        line_src = open(os.path.join(REPO, PKG, f)).read().splitlines()[line - 1].strip()
        rec = {"file": f, "kind": kind, "line": line, "col": col, "what": what, "source": line_src, "caught_by": []}
        t0 = time.time()
        for c in checks:
            p = sh("cd %s && VERIF_REPO_DIR=%s VERIF_EVIDENCE_DIR=%s/evidence ./check %s --tier quick 2>&1 | tail -3"
                   % (VERIF, wt, out, c))
            if "VIOLATION" in p.stdout or "status=violation" in p.stdout:
                rec["caught_by"].append(c)
            elif "status=inconclusive" in p.stdout or "HARNESS" in p.stdout:
                rec.setdefault("inconclusive", []).append(c)
        rec["check_s"] = round(time.time() - t0)
        report.append(rec)
        print(json.dumps(rec), flush=True)
        json.dump(report, open(os.path.join(out, "report.json"), "w"), indent=1)
    sh("git -C %s worktree remove --force %s" % (REPO, wt))
    surv = [r for r in report if not r["caught_by"]]
    print("mutants passing the suite: %d, caught: %d, surviving all checks: %d" % (len(report), len(report) - len(surv), len(surv)))


if __name__ == "__main__":
    main()

#!/usr/bin/env python3
"""After running all quick checks on the clean tree: every evidence file must validate, say
status ok / exhaustive, and have no path that was not evaluable and no inconclusive job."""
import glob
import json
import sys
import jsonschema
sch = json.load(open("/root/.vp/EVIDENCE.schema.json"))
bad = 0
for f in sorted(glob.glob("evidence/C*.json")):
    e = json.load(open(f))
    jsonschema.validate(e, sch)
    c = e["coverage"]
    problems = []
    if c["status"] != "ok":
        problems.append("status " + c["status"])
    if not c["exhaustive"]:
        problems.append("not exhaustive")
    if c["paths_not_evaluable"]:
        problems.append("not evaluable: %r" % c["paths_not_evaluable"])
    if c["inconclusive_jobs"]:
        problems.append("inconclusive jobs")
    if c["vacuity"].get("vacuous"):
        problems.append("vacuous twin")
    if e.get("violations"):
        problems.append("violations")
    print("%s %-8s states=%-8d wall=%-6.1f %s" % (f, e["tier"], c["states"], e["wall_s"], "; ".join(problems) or "ok"))
    bad += bool(problems)
sys.exit(1 if bad else 0)

#!/bin/bash
# tools/seedtest.sh <ID> <worktree> [checks...]
# Confirms a seeded change (suite green with it, demo fails with it, demo passes
# without it), stores it under seeded/<ID>/, runs the given checks (default: all
# quick checks) against /repo with the change applied, and reverts /repo.
set -u
ID=$1; WT=$2; shift 2
CHECKS="$@"
cd "$(dirname "$0")/.."
D=seeded/$ID
mkdir -p $D
cp $WT/seed/patch.diff $D/patch.diff
cp $WT/seed/demo.py $D/demo.py
cp $WT/seed/meta.json $D/agent_meta.json 2>/dev/null
git -C $WT diff -- checkpoint_schedules > /tmp/seed_actual.diff
if ! diff -q /tmp/seed_actual.diff $D/patch.diff >/dev/null; then echo "NOTE: worktree diff differs from seed/patch.diff; using the worktree diff"; cp /tmp/seed_actual.diff $D/patch.diff; fi
echo "== suite with change"
(cd $WT && PYTHONPATH=$WT /venv/bin/python -m pytest -q -p no:cacheprovider -n 8 2>&1 | tail -1) | tee /tmp/seed_suite.txt
echo "== demo with change (expect non-zero)"
(cd $WT && PYTHONPATH=$WT timeout 600 /venv/bin/python seed/demo.py 2>&1 | tail -3); W=${PIPESTATUS[0]}
(cd $WT && PYTHONPATH=$WT timeout 600 /venv/bin/python seed/demo.py >/dev/null 2>&1); W=$?
echo "exit=$W"
echo "== demo without change (expect 0): run against a clean scratch worktree (git stash is shared between worktrees)"
CLEAN=/tmp/scratch/clean_$ID
rm -rf $CLEAN; mkdir -p /tmp/scratch
git -C /repo worktree add -q --detach $CLEAN HEAD
(cd $CLEAN && PYTHONPATH=$CLEAN timeout 600 /venv/bin/python $WT/seed/demo.py 2>&1 | tail -2)
(cd $CLEAN && PYTHONPATH=$CLEAN timeout 600 /venv/bin/python $WT/seed/demo.py >/dev/null 2>&1); WO=$?
echo "exit=$WO"
git -C /repo worktree remove --force $CLEAN
echo "== checks against a scratch copy of /repo with the change applied"
SCR=/tmp/scratch/seed_$ID
rm -rf $SCR; mkdir -p /tmp/scratch
git -C /repo worktree add -q --detach $SCR HEAD
git -C $SCR apply $PWD/$D/patch.diff || { echo "PATCH DOES NOT APPLY"; git -C /repo worktree remove --force $SCR; exit 3; }
[ -z "$CHECKS" ] && CHECKS="C01 C02 C03 C04 C05 C06 C07 C08 C09 C10 C11 C12 C13 C14 C16 C17 C18 C19"
RES=""
for c in $CHECKS; do
  out=$(VERIF_REPO_DIR=$SCR VERIF_EVIDENCE_DIR=/tmp/scratch/evid_$ID ./check $c --tier ${TIER:-quick} 2>&1); rc=$?
  echo "$c rc=$rc $(echo "$out" | grep -E 'counterexamples kept|HARNESS|status=' | tr '\n' ' ' | cut -c1-400)"
  RES="$RES $c:$rc"
done
git -C /repo worktree remove --force $SCR
rm -rf /tmp/scratch/evid_$ID
echo "SUMMARY $ID suite='$(cat /tmp/seed_suite.txt)' demo_with=$W demo_without=$WO checks:$RES"

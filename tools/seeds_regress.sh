#!/bin/bash
# Re-runs, for every kept seeded change, the check of the property it breaks against a scratch
# worktree with the change applied; prints one line per seed. Usage: tools/seeds_regress.sh [out] [k/m]
# (k/m: only the seeds whose index is k modulo m, to run m instances side by side)
cd "$(dirname "$0")/.."
OUT=${1:-/tmp/scratch/seeds_regress.txt}
PART=${2:-0/1}; K=${PART%/*}; M=${PART#*/}; I=0
mkdir -p /tmp/scratch; : > $OUT
for d in seeded/*/; do
  id=$(basename $d); [ -f $d/patch.diff ] || continue
  I=$((I+1)); [ $((I % M)) -eq $K ] || continue
  case " ${SKIP:-} " in *" $id "*) continue;; esac
  prop=$(python3 -c "import json;m=json.load(open('$d/meta.json'));print(m.get('regress_check', m['property']))")
  tier=$(python3 -c "import json;print('thorough' if json.load(open('$d/meta.json')).get('tier','quick').startswith('thorough') else 'quick')")
  SCR=/tmp/scratch/rg_$id; rm -rf $SCR
  git -C /repo worktree add -q --detach $SCR HEAD
  if ! git -C $SCR apply $PWD/$d/patch.diff 2>/dev/null; then echo "$id $prop PATCH-DOES-NOT-APPLY" | tee -a $OUT; git -C /repo worktree remove --force $SCR; continue; fi
  out=$(VERIF_REPO_DIR=$SCR VERIF_EVIDENCE_DIR=/tmp/scratch/rg_ev$K ./check $prop --tier $tier 2>&1); rc=$?
  echo "$id $prop $tier rc=$rc $(echo "$out" | grep -E 'counterexamples kept' | cut -c1-160)" | tee -a $OUT
  git -C /repo worktree remove --force $SCR
done
rm -rf /tmp/scratch/rg_ev$K
echo "caught: $(grep -c 'rc=1' $OUT) of $(wc -l < $OUT)" | tee -a $OUT

#!/bin/bash
# Build the overlay environment for the checks, offline, from the wheelhouse.
# Idempotent: does nothing if the environment already works.
set -e
cd "$(dirname "$0")"
VENV="$PWD/.venv"
if [ -x "$VENV/bin/python" ] && "$VENV/bin/python" -c "import z3, checkpoint_schedules, numpy" 2>/dev/null; then
    exit 0
fi
rm -rf "$VENV"
/venv/bin/python -m venv "$VENV"
SP=$("$VENV/bin/python" -c "import sysconfig; print(sysconfig.get_paths()['purelib'])")
# /venv is itself a venv, so --system-site-packages cannot chain to it: add its
# site-packages (numpy, pytest, the editable install of /repo) through a .pth
echo "import site; site.addsitedir('/venv/lib/python3.12/site-packages')" > "$SP/verif_overlay.pth"
PIP_NO_INDEX=1 "$VENV/bin/pip" install -q --no-index --find-links /opt/veriftools/wheels \
    z3-solver crosshair-tool jsonschema >/dev/null
"$VENV/bin/python" -c "import z3, checkpoint_schedules, numpy; print('overlay ok', z3.get_version_string())"

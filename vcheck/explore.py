"""Path exploration driver: runs a harness over all paths, validates every path
against a concrete twin run of the real code, replays counterexamples."""
from __future__ import annotations

import os
import sys
import time
import traceback
import types

from . import symx
from .symx import (Engine, SymCtx, ConcreteCtx, PathAbort, HarnessError,
                   Inconclusive, evalm, plain)

REPO_DIR = os.path.realpath(os.environ.get("VERIF_REPO_DIR", "/repo"))


# ---------------------------------------------------------------------------
# pristine global state per path (DESIGN 3.4)

class StateKeeper:
    """Snapshot / restore of every mutable container reachable from the module
    globals and function closure cells of checkpoint_schedules*."""

    def __init__(self, prefix="checkpoint_schedules"):
        self.saved = []
        seen = set()

        def note(obj):
            if id(obj) in seen:
                return
            if isinstance(obj, dict):
                seen.add(id(obj))
                self.saved.append((obj, dict(obj)))
            elif isinstance(obj, list):
                seen.add(id(obj))
                self.saved.append((obj, list(obj)))
            elif isinstance(obj, set):
                seen.add(id(obj))
                self.saved.append((obj, set(obj)))

        def walk_fn(fn, depth=0):
            if id(fn) in seen or depth > 6:
                return
            seen.add(id(fn))
            for cell in (fn.__closure__ or ()):
                try:
                    v = cell.cell_contents
                except ValueError:
                    continue
                if isinstance(v, types.FunctionType):
                    walk_fn(v, depth + 1)
                else:
                    note(v)
            w = getattr(fn, "__wrapped__", None)
            if isinstance(w, types.FunctionType):
                walk_fn(w, depth + 1)

        for name, mod in list(sys.modules.items()):
            if mod is None or not name.startswith(prefix):
                continue
            for k, v in list(vars(mod).items()):
                if k.startswith("__"):
                    continue
                if isinstance(v, types.FunctionType):
                    walk_fn(v)
                elif isinstance(v, (dict, list, set)):
                    note(v)
                elif isinstance(v, type) and getattr(v, "__module__", "").startswith(prefix):
                    for kk, vv in list(vars(v).items()):
                        if isinstance(vv, types.FunctionType):
                            walk_fn(vv)
                        elif isinstance(vv, (dict, list, set)) and not kk.startswith("__"):
                            note(vv)

    def restore(self):
        for obj, content in self.saved:
            if isinstance(obj, dict):
                if obj != content or len(obj) != len(content):
                    obj.clear()
                    obj.update(content)
            elif isinstance(obj, list):
                obj[:] = content
            else:
                obj.clear()
                obj.update(content)


_keeper = None


def reset_repo_state():
    global _keeper
    if _keeper is None:
        import checkpoint_schedules  # noqa: F401
        _keeper = StateKeeper()
    _keeper.restore()


# ---------------------------------------------------------------------------
# which functions of the repository ran under proxies

_funcs_seen = set()
_mon_on = False


def start_function_monitor():
    global _mon_on
    if _mon_on or not hasattr(sys, "monitoring"):
        return
    mon = sys.monitoring
    tool = 3
    try:
        mon.use_tool_id(tool, "vcheck")
    except ValueError:
        return
    pkg = os.path.join(REPO_DIR, "checkpoint_schedules")

    def on_start(code, off):
        fn = code.co_filename
        if fn.startswith(pkg) and code.co_flags & 0x2:     # functions only (no module / class bodies)
            _funcs_seen.add("%s:%s" % (os.path.relpath(fn, REPO_DIR), code.co_qualname))
        return mon.DISABLE

    mon.register_callback(tool, mon.events.PY_START, on_start)
    mon.set_events(tool, mon.events.PY_START)
    _mon_on = True


# ---------------------------------------------------------------------------

class Result:
    def __init__(self):
        self.paths = 0
        self.paths_ok = 0
        self.paths_assume = 0
        self.paths_noteval = 0
        self.validated = 0
        self.failures = []        # dicts
        self.failures_total = 0
        self.covers = {}
        self.samples = []
        self.status = "ok"        # ok | inconclusive | harness-error
        self.message = ""
        self.stats = {}
        self.exhaustive = False
        self.nontrivial = set()
        self.wall_s = 0.0
        self.functions = []
        self.noteval_reasons = {}
        self.query_log = []
        self.float_twin_agree = 0
        self.float_twin_differ = 0
        self.float_differ_samples = []

    def as_dict(self):
        d = dict(self.__dict__)
        d["nontrivial"] = len(self.nontrivial)
        return d


def run_concrete(harness, params, assignment, fatal=None, real_as="exact"):
    """One concrete run. -> (ctx, status)"""
    reset_repo_state()
    ctx = ConcreteCtx(assignment, fatal=fatal, real_as=real_as)
    saved = symx._E
    symx._E = None
    try:
        harness(ctx, **params)
        status = "ok"
    except PathAbort as e:
        status = e.kind
        if e.kind == "noteval":
            ctx.noteval_reason = e.info
    finally:
        symx._E = saved
    return ctx, status


def _float_exact(assignment):
    from fractions import Fraction
    for v in assignment.values():
        if isinstance(v, Fraction):
            d = v.denominator
            if d & (d - 1) or d > 2 ** 20 or abs(v) > 2 ** 30:
                return False
    return True


def _jsonable(x):
    from fractions import Fraction
    if isinstance(x, Fraction):
        return str(x)
    if isinstance(x, (list, tuple)):
        return [_jsonable(y) for y in x]
    if isinstance(x, dict):
        return {str(k): _jsonable(v) for k, v in x.items()}
    if isinstance(x, (int, float, str, bool)) or x is None:
        return x
    return repr(x)


def explore(harness, params, fatal=None, deadline_s=300.0, validate=True,
            max_failures_kept=6, sample_every=None, max_paths=None, name="",
            log_queries=False):
    """Explore all paths of harness(ctx, **params)."""
    res = Result()
    t0 = time.time()
    start_function_monitor()
    E = Engine(deadline_s=deadline_s)
    if log_queries:
        E.query_log = []
    kept_per_tag = {}
    try:
        while True:
            reset_repo_state()
            E.begin_path()
            ctx = SymCtx(E, fatal=fatal)
            status = "ok"
            info = None
            try:
                harness(ctx, **params)
            except PathAbort as e:
                status = e.kind
                info = e.info
            res.paths += 1
            for k, v in ctx.covers.items():
                res.covers[k] = res.covers.get(k, 0) + v
            m = E.path_model() if E.models else None
            if status == "ok" or status == "violation" or status == "violation-only":
                if status == "ok":
                    res.paths_ok += 1
            elif status == "assume":
                res.paths_assume += 1
            elif status == "noteval":
                res.paths_noteval += 1
                res.noteval_reasons[str(info)] = res.noteval_reasons.get(str(info), 0) + 1
            if m is not None and status == "ok" and ctx.covers.get("__nontrivial__"):
                res.nontrivial.add(hash(repr(evalm(ctx.trace_items, m))))
            # differential validation of the path against the real code run concretely
            if validate and m is not None and status in ("ok", "noteval"):
                assignment = E.assignment(m)
                sym_trace = evalm(ctx.trace_items, m)
                cctx, cstatus = run_concrete(harness, params, assignment, fatal=fatal)
                con_trace = plain(cctx.trace_items)
                if cstatus != status or con_trace != sym_trace:
                    k = 0
                    while k < min(len(con_trace), len(sym_trace)) and con_trace[k] == sym_trace[k]:
                        k += 1
                    raise HarnessError(
                        "trace divergence between symbolic path and concrete twin run "
                        "(%s): status %s vs %s, first difference at item %d: %r vs %r; inputs %r"
                        % (name, status, cstatus, k,
                           sym_trace[k] if k < len(sym_trace) else None,
                           con_trace[k] if k < len(con_trace) else None, assignment))
                res.validated += 1
                # where the model point is exactly representable in binary floating point, the
                # stream a user gets with float costs is compared too (informational: IEEE
                # rounding is outside every claim)
                if E.has_reals() and _float_exact(assignment):
                    fctx, fstatus = run_concrete(harness, params, assignment, fatal=fatal, real_as="float")
                    if fstatus == cstatus and plain(fctx.trace_items) == con_trace:
                        res.float_twin_agree += 1
                    else:
                        res.float_twin_differ += 1
                        if len(res.float_differ_samples) < 3:
                            res.float_differ_samples.append(_jsonable(assignment))
                # requirements that exist only in the concrete twin (type checks on emitted actions)
                sym_tags = {f[0] for f in ctx.failures}
                for ctag, cinfo in cctx.failures:
                    if ctag in sym_tags:
                        continue
                    res.failures_total += 1
                    if kept_per_tag.get(ctag, 0) < max_failures_kept:
                        kept_per_tag[ctag] = kept_per_tag.get(ctag, 0) + 1
                        res.failures.append({"tag": ctag, "inputs": _jsonable(assignment), "info": _jsonable(cinfo),
                                             "reproduced": True, "concrete_failures": _jsonable(cctx.failures[:3]),
                                             "params": _jsonable(params), "harness": name,
                                             "concrete_trace_tail": _jsonable(con_trace[-25:])})
                if len(res.samples) < 3 and (sample_every is None or res.paths % sample_every == 0):
                    res.samples.append({"inputs": _jsonable(assignment),
                                        "trace_head": _jsonable(con_trace[:12]),
                                        "trace_len": len(con_trace)})
            # counterexample candidates: replay each against the real code
            for tag, finfo, assignment in ctx.failures:
                res.failures_total += 1
                n = kept_per_tag.get(tag, 0)
                cctx, cstatus = run_concrete(harness, params, assignment, fatal=fatal)
                ctags = [f[0] for f in cctx.failures]
                reproduced = tag in ctags
                rec = {"tag": tag, "inputs": _jsonable(assignment), "info": _jsonable(finfo),
                       "reproduced": reproduced, "concrete_failures": _jsonable(cctx.failures),
                       "params": _jsonable(params), "harness": name,
                       "concrete_trace_tail": _jsonable(plain(cctx.trace_items)[-25:])}
                if not reproduced:
                    res.status = "harness-error"
                    res.message = ("counterexample for %s did not reproduce concretely: %r"
                                   % (tag, rec))
                    res.failures.append(rec)
                    raise HarnessError(res.message)
                if n < max_failures_kept:
                    kept_per_tag[tag] = n + 1
                    res.failures.append(rec)
            if max_paths is not None and res.paths >= max_paths:
                raise Inconclusive("path budget (%d) exhausted" % max_paths)
            if not E.backtrack():
                res.exhaustive = True
                break
    except Inconclusive as e:
        res.status = "inconclusive"
        res.message = "%s: %s" % (name, e)
    except HarnessError as e:
        res.status = "harness-error"
        res.message = "%s: %s" % (name, e)
    except PathAbort as e:  # pragma: no cover
        res.status = "harness-error"
        res.message = "%s: stray PathAbort %s" % (name, e)
    except Exception as e:
        res.status = "harness-error"
        res.message = "%s: unexpected %s: %s\n%s" % (name, type(e).__name__, e,
                                                     traceback.format_exc()[-2000:])
    finally:
        symx._E = None
    res.stats = dict(E.stats)
    res.wall_s = time.time() - t0
    res.functions = sorted(_funcs_seen)
    if E.query_log:
        res.query_log = E.query_log
    return res

"""Oracle self-check by exhaustive search (DESIGN 3.2): for tiny problems the
optimum over ALL executable action streams -- in the very semantics of the
reference executor -- is computed by Dijkstra over executor states and compared
with the published recurrences that the oracles transcribe.  This turns part of
the trusted base ("the recurrence is the optimum over all schedules") into
something checked, for n <= 6 and a handful of cost vectors.  It is a validation
of the oracles, not the deciding step of any property."""
from __future__ import annotations

import heapq
from fractions import Fraction as Fr
from itertools import count

from . import oracles


def optimum_all_schedules(n, ram, disk, uf, ub, wd, rd, mixed=False):
    """Minimal cost of reversing n steps by any stream of Forward/Copy/Move/Reverse
    with at most `ram` (`disk`) checkpoints held in RAM (DISK).  cost: uf per
    forward step, ub per reversed step, wd per DISK write, rd per DISK load.
    mixed=True: a unit may instead hold the adjoint dependencies of one step."""
    # state: (p, r, ram_ics, disk_ics, ram_adj, disk_adj); p = forward position in WORK
    start = (0, 0, frozenset(), frozenset(), frozenset(), frozenset())
    best = {start: Fr(0)}
    tie = count()
    heap = [(Fr(0), next(tie), start)]
    while heap:
        c, _, st = heapq.heappop(heap)
        if best.get(st, None) != c:
            continue
        p, r, R, D, RA, DA = st
        if r == n:
            return c
        nxt = []
        top = n - r                      # adjoint position
        if p is not None:
            # store the current forward state (restart data for step p)
            if p < top and p not in R and len(R) + len(RA) < ram:
                nxt.append((c, (p, r, R | {p}, D, RA, DA)))
            if p < top and p not in D and len(D) + len(DA) < disk:
                nxt.append((c + wd, (p, r, R, D | {p}, RA, DA)))
            if p < top - 1:
                nxt.append((c + uf, (p + 1, r, R, D, RA, DA)))          # plain advance
                if mixed:
                    # advance one step storing its adjoint dependencies in a unit
                    if p not in RA and len(R) + len(RA) < ram:
                        nxt.append((c + uf, (p + 1, r, R, D, RA | {p}, DA)))
                    if p not in DA and len(D) + len(DA) < disk:
                        nxt.append((c + uf + wd, (p + 1, r, R, D, RA, DA | {p})))
            if p == top - 1:
                # advance over the last step recording adjoint data, then reverse it
                nxt.append((c + uf + ub, (p + 1, r + 1, R, D, RA, DA)))
        # reverse a step whose adjoint dependencies sit in a unit
        if mixed:
            if (top - 1) in RA:
                nxt.append((c + ub, (None, r + 1, R, D, RA - {top - 1}, DA)))
            if (top - 1) in DA:
                nxt.append((c + ub + rd, (None, r + 1, R, D, RA, DA - {top - 1})))
        # load / delete restart checkpoints (loading keeps the copy; deleting is free)
        for k in R:
            if k < top:
                nxt.append((c, (k, r, R, D, RA, DA)))
            nxt.append((c, (p, r, R - {k}, D, RA, DA)))
        for k in D:
            if k < top:
                nxt.append((c + rd, (k, r, R, D, RA, DA)))
            nxt.append((c, (p, r, R, D - {k}, RA, DA)))
        for cc, s2 in nxt:
            if s2 not in best or cc < best[s2]:
                best[s2] = cc
                heapq.heappush(heap, (cc, next(tie), s2))
    return None


COSTS = [(1, 1, 2, 2), (3, 1, 1, 1), (1, 3, Fr(1, 2), 2), (2, 1, 0, 3), (1, 1, 3, 0), (5, 2, 1, 1), (1, 1, Fr(1, 4), Fr(1, 4))]


def selfcheck(which, nmax=6):
    """-> dict summary; raises AssertionError on a mismatch."""
    out = {"cases": 0}
    if which == "binomial":
        for n in range(1, nmax + 2):
            for s in range(1, 4):
                got = optimum_all_schedules(n, s, 0, 1, 0, 0, 0)
                exp = n + oracles.E_bin(n, min(s, n - 1)) if n > 1 else 1
                assert got == exp, ("binomial", n, s, got, exp)
                out["cases"] += 1
    elif which == "mixed":
        for n in range(1, nmax + 2):
            for s in range(1, 4):
                got = optimum_all_schedules(n, s, 0, 1, 0, 0, 0, mixed=True)
                exp = oracles.E_mix(n, min(s, n - 1)) if n > 1 else 1
                assert got == exp, ("mixed", n, s, got, exp)
                out["cases"] += 1
    elif which == "hrevolve":
        for (uf, ub, wd, rd) in COSTS:
            T = oracles.CostTables(Fr(uf), Fr(ub), Fr(wd), Fr(rd))
            for n in range(1, nmax + 1):
                for ram in (1, 2):
                    for d in (0, 1, 2):
                        got = optimum_all_schedules(n, ram, d, Fr(uf), Fr(ub), Fr(wd), Fr(rd))
                        exp = T.hopt(1, n - 1, d, ram) + n * Fr(uf)
                        assert got == exp, ("hrevolve", n, ram, d, (uf, ub, wd, rd), got, exp)
                        out["cases"] += 1
                    got = optimum_all_schedules(n, ram, 0, Fr(uf), Fr(ub), Fr(wd), Fr(rd))
                    exp = T.opt0(n - 1, ram) + n * Fr(uf)
                    assert got == exp, ("revolve", n, ram, (uf, ub, wd, rd), got, exp)
                    out["cases"] += 1
    return out


if __name__ == "__main__":
    import sys
    import time
    for w in sys.argv[1:] or ["binomial", "mixed", "hrevolve"]:
        t = time.time()
        try:
            print(w, selfcheck(w), round(time.time() - t, 1), "s")
        except AssertionError as e:
            print(w, "MISMATCH", e, round(time.time() - t, 1), "s")

"""Unit harnesses (lemmas) where symbolic integers stay symbolic: a path covers
a whole range of values.  See DESIGN.md section 5."""
from __future__ import annotations

import sys

from . import oracles
from .symx import PathAbort, Sym, SymBool, is_sym, sym_and, sym_or, sym_not
from .stream import silence_repo_output, construct, action_kind, st_name

INF = float("inf")


# ---------------------------------------------------------------------------
# C05 / C13 kernel: n_advance satisfies the Bellman equation of the binomial
# optimum, for a *symbolic* n

def h_nadv(ctx, s, trajectory, nmax):
    from checkpoint_schedules.multistage import n_advance
    n = ctx.int("n", 2, nmax)
    try:
        i = n_advance(n, s, trajectory=trajectory)
    except PathAbort:
        raise
    except Exception as e:                                  # noqa: BLE001
        ctx.fail("C05.nadv_raises", {"exc": repr(e)})
    ctx.trace(("n_advance", i))
    ctx.require(sym_and(i >= 1, i <= n - 1), "C05.nadv_range", lambda: {"n": n, "s": s, "i": i})
    lhs = i + oracles.E_bin(i, s) + oracles.E_bin(n - i, s - 1)
    rhs = oracles.E_bin(n, s)
    ctx.trace(("bellman", lhs, rhs))
    ctx.require(lhs == rhs, "C05.nadv_bellman",
                lambda: {"n": n, "s": s, "i": i, "steps_with_this_split": lhs, "optimum": rhs})
    if is_sym(i) or is_sym(n):
        ctx.cover("__nontrivial__")


def h_nadv_invalid(ctx):
    """n_advance rejects n < 1 and snapshots <= 0 (used by C17's late checks)."""
    from checkpoint_schedules.multistage import n_advance
    n = ctx.int("n", None, None)
    s = ctx.int("s", -1, 4, eager=True)
    traj = ctx.choice("traj", ["maximum", "revolve"])
    ctx.assume(n <= 200)
    valid = sym_and(n >= 1, s >= 1)
    try:
        i = n_advance(n, s, trajectory=traj)
        raised = False
    except PathAbort:
        raise
    except ValueError:
        raised = True
    ctx.trace(("raised", raised))
    if raised:
        ctx.require(sym_not(valid), "C17.nadv_domain", lambda: {"n": n, "s": s})
    else:
        ctx.require(valid, "C17.nadv_domain", lambda: {"n": n, "s": s})


# ---------------------------------------------------------------------------
# C05.3 published helper

def h_optim_helper(ctx, n):
    from checkpoint_schedules.multistage import optimal_steps_binomial
    s = ctx.int("s", min(1, n - 1), None)
    try:
        got = optimal_steps_binomial(n, s)
    except PathAbort:
        raise
    except Exception as e:                                  # noqa: BLE001
        ctx.fail("C05.helper_raises", {"exc": repr(e), "n": n})
    ctx.trace(("helper", got))
    exp = n + oracles.E_bin_rec(n, int(s) if s < n - 1 else n - 1) if n > 1 else 1
    ctx.require(got == exp, "C05.helper", lambda: {"n": n, "s": s, "got": got, "optimum": exp})
    if n > 2:
        ctx.cover("__nontrivial__")


# ---------------------------------------------------------------------------
# C06.2 planner lemma

def h_mixed_planner(ctx, n, smax=None, smin=None):
    from checkpoint_schedules.mixed import mixed_step_memoization, optimal_steps_mixed
    from checkpoint_schedules.schedule import StepType
    s = ctx.int("s", min(1, n - 1) if smin is None else smin, smax)
    try:
        kind, i, c = mixed_step_memoization(n, s)
        total = optimal_steps_mixed(n, s)
    except PathAbort:
        raise
    except Exception as e:                                  # noqa: BLE001
        ctx.fail("C06.planner_raises", {"exc": repr(e), "n": n})
    se = int(s) if s < n - 1 else n - 1
    ctx.trace(("plan", int(kind), i, c, total))
    E = oracles.E_mix
    opt = E(n, se)
    info = lambda: {"n": n, "s": se, "kind": str(kind), "i": i, "c": c, "optimum": opt}  # noqa: E731
    ctx.require(c == opt, "C06.planner_cost", info)
    ctx.require(total == opt, "C06.helper", info)
    if kind == StepType.FORWARD_REVERSE:
        ctx.require(n == 1 and i == 1, "C06.planner_choice", info)
    elif kind == StepType.WRITE_ADJ_DEPS:
        ctx.require(i == 1 and se >= 1 and 1 + E(n - 1, se - 1) == c, "C06.planner_choice", info)
    elif kind == StepType.WRITE_ICS:
        ctx.require(1 <= i < n and se >= 1 and i + E(i, se) + E(n - i, se - 1) == c,
                    "C06.planner_choice", info)
    else:
        ctx.fail("C06.planner_choice", info)
    if n > 2:
        ctx.cover("__nontrivial__")


# ---------------------------------------------------------------------------
# C18(b): directly constructed actions

KINDS = ("Forward", "Reverse", "Copy", "Move", "EndForward", "EndReverse")


def _mk_action(ctx, tag, kind, boxed):
    """-> (action, fields) with symbolic fields."""
    from checkpoint_schedules import schedule as S

    def num(name):
        x = ctx.int(tag + name, None if not boxed else 0, None)
        if boxed:
            ctx.assume(sym_or(x <= 6, sym_and(x >= sys.maxsize - 1, x <= sys.maxsize + 1),
                              x == 2 * sys.maxsize))
        return x
    sts = [S.StorageType.RAM, S.StorageType.DISK, S.StorageType.WORK, S.StorageType.NONE]
    if kind == "Forward":
        f = (num("n0"), num("n1"), ctx.bool(tag + "wi"), ctx.bool(tag + "wa"),
             ctx.choice(tag + "st", sts))
        return S.Forward(*f), f
    if kind == "Reverse":
        f = (num("n1"), num("n0"), ctx.bool(tag + "cl"))
        return S.Reverse(*f), f
    if kind in ("Copy", "Move"):
        f = (num("n"), ctx.choice(tag + "src", sts[:2]), ctx.choice(tag + "dst", sts))
        return getattr(S, kind)(*f), f
    return getattr(S, kind)(), ()


def h_action_eq(ctx, ka, kb):
    """a == b never raises and is true iff same kind and equal parameters;
    fields are unbounded symbolic integers."""
    a, fa = _mk_action(ctx, "a_", ka, False)
    b, fb = _mk_action(ctx, "b_", kb, False)
    try:
        r = (a == b)
        r2 = (a != b)
    except PathAbort:
        raise
    except Exception as e:                                  # noqa: BLE001
        ctx.fail("C18.eq_raises", {"exc": repr(e), "a": ka, "b": kb})
    r = bool(r)
    r2 = bool(r2)
    ctx.trace(("eq", r, r2))
    same = ka == kb
    if same:
        exp = True
        for x, y in zip(fa, fb):
            e = (x == y)
            exp = sym_and(exp, e)
    else:
        exp = False
    if r:
        ctx.require(exp, "C18.eq_law", lambda: {"a": (ka, fa), "b": (kb, fb), "eq": r})
    else:
        ctx.require(sym_not(exp), "C18.eq_law", lambda: {"a": (ka, fa), "b": (kb, fb), "eq": r})
    ctx.require(r2 == (not r), "C18.ne_law", {"a": ka, "b": kb})
    try:
        other = (a == 3, a == None, a == "x")               # noqa: E711
    except PathAbort:
        raise
    except Exception as e:                                  # noqa: BLE001
        ctx.fail("C18.eq_raises", {"exc": repr(e), "a": ka, "b": "non-action"})
    ctx.require(not any(bool(o) for o in other), "C18.eq_law", {"a": ka, "b": "non-action"})
    ctx.cover("__nontrivial__")


def h_action_value(ctx, kind):
    """repr round trip, len, iteration on boxed fields (0..6 and sys.maxsize)."""
    from checkpoint_schedules import schedule as S
    a, f = _mk_action(ctx, "a_", kind, True)
    f = tuple(ctx.concrete(x) for x in f)
    a = getattr(S, kind)(*f)
    ns = {k: getattr(S, k) for k in KINDS}
    ns["StorageType"] = S.StorageType
    ns["sys"] = sys
    try:
        text = repr(a)
        back = eval(text, ns)                               # noqa: S307
    except PathAbort:
        raise
    except Exception as e:                                  # noqa: BLE001
        ctx.fail("C18.repr_roundtrip", {"exc": repr(e), "kind": kind, "fields": repr(f)})
    ctx.trace(("repr", text))
    ctx.require(type(back) is type(a) and tuple(back.args) == tuple(a.args), "C18.repr_roundtrip",
                {"repr": text})
    try:
        ok = (back == a)
    except Exception as e:                                  # noqa: BLE001
        ctx.fail("C18.eq_raises", {"exc": repr(e)})
    ctx.require(bool(ok), "C18.repr_roundtrip", {"repr": text, "eq": False})
    if kind in ("Forward", "Reverse"):
        n0, n1 = (f[0], f[1]) if kind == "Forward" else (f[1], f[0])
        if n0 < n1:
            if n1 - n0 <= 10:
                steps = list(a)
                exp = list(range(n0, n1)) if kind == "Forward" else list(range(n1 - 1, n0 - 1, -1))
                ctx.require(steps == exp, "C18.iter", {"kind": kind, "got": steps, "expected": exp})
            if n1 - n0 <= sys.maxsize:      # CPython: len() cannot exceed sys.maxsize
                try:
                    ln = len(a)
                except PathAbort:
                    raise
                except Exception as e:                      # noqa: BLE001
                    ctx.fail("C18.len", {"exc": repr(e), "fields": repr(f)})
                ctx.require(ln == n1 - n0, "C18.len", {"kind": kind, "len": ln})
    ctx.cover("__nontrivial__")


def h_action_contains(ctx, kind):
    """x in a  <=>  n0 <= x < n1, all three unbounded symbolic integers."""
    from checkpoint_schedules import schedule as S
    n0 = ctx.int("n0", None, None)
    n1 = ctx.int("n1", None, None)
    x = ctx.int("x", None, None)
    a = S.Forward(n0, n1, False, False, S.StorageType.NONE) if kind == "Forward" \
        else S.Reverse(n1, n0, True)
    try:
        r = x in a
    except PathAbort:
        raise
    except Exception as e:                                  # noqa: BLE001
        ctx.fail("C18.contains", {"exc": repr(e)})
    ctx.trace(("in", r))
    exp = sym_and(n0 <= x, x < n1)
    info = lambda: {"n0": n0, "n1": n1, "x": x, "in": r}     # noqa: E731
    if r:
        ctx.require(exp, "C18.contains", info)
    else:
        ctx.require(sym_not(exp), "C18.contains", info)
    ctx.require(a.n0 == n0, "C18.accessors", info)
    ctx.require(a.n1 == n1, "C18.accessors", info)
    ctx.cover("__nontrivial__")


# ---------------------------------------------------------------------------
# C10: finalize histories

FIN_INSTANCES = {
    "SingleMemory": {"cls": "SingleMemory"},
    "SingleDiskCopy": {"cls": "SingleDiskCopy"},
    "SingleDiskMove": {"cls": "SingleDiskMove"},
    "None": {"cls": "None"},
    "TwoLevel": {"cls": "TwoLevel", "b": 1, "storage": "RAM", "trajectory": "maximum"},
    "TwoLevel2": {"cls": "TwoLevel", "period": 2, "b": 1, "storage": "DISK", "trajectory": "revolve"},
    "Multistage": {"cls": "Multistage", "n": 4, "ram": 1, "disk": 1, "trajectory": "maximum"},
    "Mixed": {"cls": "Mixed", "n": 4, "s": 2, "storage": "DISK"},
    "HRevolve": {"cls": "HRevolve", "n": 4, "ram": 1, "disk": 1, "uf": 1, "ub": 1, "wd": 2, "rd": 2},
    "Revolve": {"cls": "Revolve", "n": 4, "ram": 2, "uf": 1, "ub": 1, "wd": 2, "rd": 2},
    "DiskRevolve": {"cls": "DiskRevolve", "n": 4, "ram": 1, "uf": 1, "ub": 1, "wd": 2, "rd": 2},
    "PeriodicDiskRevolve": {"cls": "PeriodicDiskRevolve", "n": 4, "ram": 1, "uf": 1, "ub": 1, "wd": 2, "rd": 2},
}


def _next_obs(sched):
    """-> ('action', kind, args) | ('stop',) | ('exc', name)"""
    try:
        a = next(sched)
    except StopIteration:
        return ("stop",)
    except PathAbort:
        raise
    except Exception as e:                                  # noqa: BLE001
        return ("exc", type(e).__name__)
    return ("action", action_kind(a)) + tuple(st_name(x) if st_name(x) else x for x in a.args)


def _same(ctx, x, y):
    """Non-forking equality of two observation tuples -> bool / SymBool."""
    if len(x) != len(y):
        return False
    r = True
    for p, q in zip(x, y):
        if is_sym(p) or is_sym(q):
            r = sym_and(r, p == q)
        elif p != q:
            return False
    return r


def h_fin(ctx, inst, L, post=4, float_k=False):
    """A history of L operations next() / finalize(k) with unbounded symbolic k,
    judged against oracles.fin_spec; rejected calls must leave no trace (twin
    object driven by the same history without the rejected calls)."""
    silence_repo_output()
    P = dict(FIN_INSTANCES[inst])
    if inst == "TwoLevel":
        P["period"] = ctx.int("period", 1, None)
    P.setdefault("n", None)
    A = construct(P)
    B = construct(P)
    # TwoLevel with a symbolic period: the reverse phase is not driven
    sym_tail = inst == "TwoLevel"
    state = {"just_accepted": False, "no_more_next": False}

    def step(label, j):
        oa = _next_obs(A)
        ob = _next_obs(B)
        ctx.trace((label, oa))
        ctx.require(_same(ctx, oa, ob), "C10.rejected_call_leaves_trace",
                    lambda: {label: j, "with_rejected_calls": oa, "without": ob})
        if state["just_accepted"]:
            ctx.require(oa[:2] == ("action", "EndForward"), "C10.next_is_end_forward",
                        lambda: {label: j, "got": oa})
            state["just_accepted"] = False
            if sym_tail:
                state["no_more_next"] = True
        return oa

    for j in range(L):
        op = ctx.choice("op%d" % j, ["next", "finalize"])
        if op == "next":
            if not state["no_more_next"]:
                step("next", j)
            continue
        if float_k and ctx.bool("kf%d" % j):
            # a float equal to an integer (what a caller computing n arithmetically may pass)
            k = ctx.choice("kv%d" % j, [0.0, 1.0, 2.0, 3.0, 5.0, float(2 ** 63), float(3 * 2 ** 62)])
        else:
            k = ctx.int("k%d" % j, None, None)
        told, mx = A.n, A.max_n
        exp, exp_mx, exp_n = oracles.fin_spec(told, mx, k)
        try:
            A.finalize(k)
            got = "ok"
        except PathAbort:
            raise
        except ValueError:
            got = "ValueError"
        except RuntimeError:
            got = "RuntimeError"
        except Exception as e:                              # noqa: BLE001
            got = type(e).__name__
        ctx.trace(("finalize", k, got, A.n, A.max_n))
        info = lambda: {"op": j, "k": k, "told_to": told, "max_n_before": mx,  # noqa: E731
                        "expected": exp, "got": got, "n_after": A.n, "max_n_after": A.max_n}
        ctx.require(got == exp, "C10.outcome", info)
        ctx.require(sym_and(_eq(A.max_n, exp_mx), _eq(A.n, exp_n)), "C10.state_after", info)
        if got == "ok":
            try:
                B.finalize(k)
            except PathAbort:
                raise
            except Exception:                               # noqa: BLE001
                ctx.fail("C10.outcome", info)
            if mx is None:
                state["just_accepted"] = True
    # the remaining stream is the same with and without the rejected calls
    for j in range(post):
        if state["no_more_next"]:
            break
        oa = step("post", j)
        if oa[0] != "action":
            break
    ctx.cover("__nontrivial__")


def _eq(a, b):
    if a is None or b is None:
        return a is b
    return a == b




# ---------------------------------------------------------------------------
# C13.1: TwoLevel forward phase for an unbounded symbolic period

def h_twolevel_fwd(ctx, K):
    import checkpoint_schedules as cs
    from checkpoint_schedules.schedule import StorageType
    p = ctx.int("period", 1, None)
    b = ctx.int("b", 0, None)
    st = ctx.choice("storage", [StorageType.RAM, StorageType.DISK])
    traj = ctx.choice("trajectory", ["maximum", "revolve"])
    sched = cs.TwoLevelCheckpointSchedule(p, b, binomial_storage=st, binomial_trajectory=traj)
    for k in range(K):
        o = _next_obs(sched)
        ctx.trace(("fwd", o))
        exp = ("action", "Forward", k * p, (k + 1) * p, True, False, "DISK")
        ctx.require(_same(ctx, o, exp), "C13.forward_phase", lambda: {"k": k, "got": o, "expected": exp})
        ctx.require(sym_and(sched.n == (k + 1) * p, sched.max_n is None, sched.r == 0),
                    "C13.forward_phase", lambda: {"k": k, "n": sched.n})
    ctx.cover("__nontrivial__")


# ---------------------------------------------------------------------------
# C14: Multistage RAM/disk split

def _multistage_stream(n, ram, disk, traj):
    import checkpoint_schedules as cs
    sched = cs.MultistageCheckpointSchedule(n, ram, disk, trajectory=traj)
    out = []
    for a in sched:
        k = action_kind(a)
        out.append((k,) + tuple(st_name(x) if st_name(x) else x for x in a.args))
        if k == "EndReverse":
            break
    return out, sched


def h_split(ctx, n, s_list=None):
    """All splits (a, s-a) of s units, same n and trajectory, inside one path."""
    silence_repo_output()
    s = ctx.choice("s_i", list(s_list)) if s_list else ctx.int("s", 1, n + 1, eager=True)
    traj = ctx.choice("trajectory", ["maximum", "revolve"])
    streams = {}
    for a in range(0, s + 1):
        try:
            streams[a], _ = _multistage_stream(n, a, s - a, traj)
        except PathAbort:
            raise
        except Exception as e:                              # noqa: BLE001
            ctx.fail("C14.raises", {"n": n, "ram": a, "disk": s - a, "exc": repr(e)})

    def erase(stream):
        return [tuple("*" if x in ("RAM", "DISK") else x for x in act) for act in stream]
    base = erase(streams[0])
    ctx.trace(("base", tuple(base)))
    depths = min(s, n - 1)
    for a, stream in streams.items():
        info = lambda: {"n": n, "s": s, "ram": a, "disk": s - a, "trajectory": traj}  # noqa: E731
        ctx.require(erase(stream) == base, "C14.labels_only", info)
        # follow the checkpoint stack: storage and access weight per depth
        stack = []
        label = {}
        w = {}
        consistent = True
        for act in stream:
            if act[0] == "Forward" and act[3]:
                d = len(stack)
                stack.append(act[1])
                if label.setdefault(d, act[5]) != act[5]:
                    consistent = False
                w[d] = w.get(d, 0) + 1
            elif act[0] in ("Copy", "Move"):
                d = len(stack) - 1
                if d < 0 or stack[d] != act[1] or label.get(d) != act[2]:
                    consistent = False
                    break
                w[d] = w.get(d, 0) + 1
                if act[0] == "Move":
                    stack.pop()
        ctx.require(consistent, "C14.depth_keeps_storage", info)
        n_ram = sum(1 for d in label if label[d] == "RAM")
        ctx.require(n_ram <= a, "C14.ram_units", lambda: dict(info(), ram_depths=n_ram))
        disk_acc = sum(w[d] for d in label if label[d] == "DISK")
        ws = sorted(w.values(), reverse=True)
        best = sum(ws) - sum(ws[:min(a, len(ws))])
        if s - a == 0:
            pass        # no disk unit declared: everything must be in RAM anyway
        ctx.require(disk_acc == best, "C14.min_disk_traffic",
                    lambda: dict(info(), disk_accesses=disk_acc, minimum=best, weights=ws))
        ctx.require(len(label) <= depths or n == 1, "C14.depths", info)
    ctx.trace(("streams", tuple((a, tuple(v)) for a, v in sorted(streams.items()))))
    if n > 2:
        ctx.cover("__nontrivial__")


# ---------------------------------------------------------------------------
# C16: tabulated (numba) planner vs memoised planner

def h_numba_table(ctx, n, smax=None):
    from checkpoint_schedules import mixed
    s = ctx.int("s", min(1, n - 1), n + 1 if smax is None else smax)
    try:
        tab = mixed.mixed_steps_tabulation(n, s)
    except PathAbort:
        raise
    except Exception as e:                                  # noqa: BLE001
        ctx.fail("C16.table_raises", {"n": n, "s": s, "exc": repr(e)})
    s = int(s)
    bad = []
    cells = 0
    for n_i in range(1, n + 1):
        for s_i in range(min(1, n_i - 1), s + 1):
            cells += 1
            memo = mixed.mixed_step_memoization(n_i, s_i)
            t = tuple(int(x) for x in tab[n_i, s_i, :])
            if t != (int(memo[0]), int(memo[1]), int(memo[2])):
                bad.append(((n_i, s_i), t, tuple(int(x) for x in memo)))
    ctx.trace(("cells", cells, tuple(bad[:3])))
    ctx.require(not bad, "C16.table", lambda: {"n": n, "s": s, "first_differences": bad[:3]})
    if n > 2:
        ctx.cover("__nontrivial__")


def _mixed_stream(n, s, storage, force_numba):
    import checkpoint_schedules as cs
    from checkpoint_schedules.schedule import StorageType
    m = sys.modules["checkpoint_schedules.mixed"]
    old = m.numba
    m.numba = True if force_numba else None
    try:
        sched = cs.MixedCheckpointSchedule(n, s, storage=getattr(StorageType, storage))
        out = []
        for a in sched:
            k = action_kind(a)
            out.append((k,) + tuple(st_name(x) if st_name(x) else x for x in a.args))
            if len(out) > 100000:
                break
        return out
    finally:
        m.numba = old


def h_numba_stream(ctx, n, smax=None):
    silence_repo_output()
    s = ctx.int("s", min(1, n - 1), smax)
    storage = ctx.choice("storage", ["RAM", "DISK"])
    res = {}
    for force in (False, True):
        try:
            res[force] = _mixed_stream(n, s, storage, force)
        except PathAbort:
            raise
        except Exception as e:                              # noqa: BLE001
            ctx.fail("C16.stream_raises", {"n": n, "s": s, "numba_path": force, "exc": repr(e)})
    a, b = res[False], res[True]
    ctx.trace(("streams", tuple(a), tuple(b)))
    k = 0
    while k < min(len(a), len(b)) and a[k] == b[k]:
        k += 1
    ctx.require(len(a) == len(b) == k, "C16.stream",
                lambda: {"n": n, "s": s, "first_difference_at": k,
                         "memoised": a[k:k + 2], "tabulated": b[k:k + 2]})
    if n > 2:
        ctx.cover("__nontrivial__")


# ---------------------------------------------------------------------------
# C17: parameter domain

def h_domain(ctx, cls, nmax):
    """Parameters in a box around the domain boundary.  valid => the stream
    completes; invalid => exception at construction or at the first next(),
    with no action emitted."""
    from .stream import (draw_costs, budgets, drive, OFFLINE, REVOLVE_FAMILY, Monitor)
    from .monitor import RAM, DISK, WORK, NONE
    silence_repo_output()
    P = {"cls": cls}
    eager = cls in REVOLVE_FAMILY
    unconstrained = False
    if cls == "TwoLevel":
        N = ctx.int("N", 1, nmax, eager=True)
        P["n"] = N
        P["period"] = ctx.int("period", -1, nmax + 1)
        P["b"] = ctx.int("b", 0, 3, eager=True)
        P["storage"] = ctx.choice("storage", [RAM, DISK, WORK, NONE])
        P["trajectory"] = ctx.choice("trajectory", ["maximum", "revolve"])
        valid = sym_and(P["period"] >= 1, P["storage"] in (RAM, DISK))
    else:
        n = ctx.int("n", -1, nmax, eager=eager)
        P["n"] = n
        if cls == "Multistage":
            P["ram"] = ctx.int("ram", 0, None)
            P["disk"] = ctx.int("disk", 0, None)
            P["trajectory"] = ctx.choice("trajectory", ["maximum", "revolve"])
            valid = sym_and(n >= 1, sym_or(n == 1, P["ram"] + P["disk"] >= 1))
        elif cls == "Mixed":
            P["s"] = ctx.int("s", 0, None)
            P["storage"] = ctx.choice("storage", [RAM, DISK, WORK, NONE])
            valid = sym_and(n >= 1, sym_or(n == 1, P["s"] >= 1), P["storage"] in (RAM, DISK))
        else:
            P["ram"] = ctx.int("ram", 0, 3, eager=True)
            if cls == "HRevolve":
                P["disk"] = ctx.int("disk", 0, 2, eager=True)
            P["uf"], P["ub"], P["wd"], P["rd"] = draw_costs(ctx, {"costs": "default"})
            valid = n >= 1 and P["ram"] >= 1
            # the class documentation restricts the family to snapshots_in_ram > 0; the
            # statement's domain admits (max_n = 1, no unit): either outcome is accepted there
            unconstrained = (n == 1 and P["ram"] == 0)
    is_valid = bool(valid)
    ctx.trace(("valid", is_valid, tuple(sorted((k, v) for k, v in P.items()))))
    emitted = 0
    exc = None
    sched = None
    try:
        sched = construct(P)
    except PathAbort:
        raise
    except Exception as e:                                  # noqa: BLE001
        exc = ("construct", type(e).__name__)
    info = lambda: {"params": {k: v for k, v in P.items()}, "valid": is_valid, "exception": exc,  # noqa: E731
                    "actions_before_exception": emitted}
    if not is_valid or unconstrained:
        if sched is not None:
            # nothing may be emitted before the failure
            while True:
                try:
                    a = next(sched)
                except StopIteration:
                    exc = ("next", "StopIteration")
                    break
                except PathAbort:
                    raise
                except Exception as e:                      # noqa: BLE001
                    exc = ("next", type(e).__name__)
                    break
                emitted += 1
                if action_kind(a) == "EndReverse" or emitted > 400:
                    break
                if cls == "TwoLevel" and emitted >= 3:
                    break
        ctx.trace(("invalid", exc, emitted))
        if unconstrained:
            ctx.require(exc is None or emitted == 0, "C17.late_failure", info)
        else:
            ctx.require(exc is not None and exc[1] != "StopIteration", "C17.invalid_accepted", info)
            ctx.require(emitted == 0, "C17.late_failure", info)
        return
    ctx.require(exc is None, "C17.valid_rejected", info)
    Nn = P["n"]
    rb, db = budgets(P, Nn)
    mon = Monitor(ctx, Nn, rb, db, max_n_known=(cls in OFFLINE))
    drive(ctx, sched, mon, P, 1, {})
    ctx.require(mon.passes_done == 1, "C17.incomplete", info)
    ctx.cover("__nontrivial__")


# ---------------------------------------------------------------------------
# C19: PeriodicDiskRevolve

def h_periodic(ctx, cm, nmax, unwind):
    from math import comb
    import checkpoint_schedules as cs
    from checkpoint_schedules.hrevolve_sequences.periodic_disk_revolve import mxrr_close_formula
    from .stream import draw_costs
    silence_repo_output()
    uf, ub, wd, rd = draw_costs(ctx, {})
    ctx.assume(wd + rd < comb(cm + 1 + unwind, unwind) * uf)
    try:
        m = mxrr_close_formula(cm, uf, rd, wd)
    except PathAbort:
        raise
    except Exception as e:                                  # noqa: BLE001
        ctx.fail("C19.period_raises", {"exc": repr(e)})
    m_ref, t_ref = oracles.m_AH(cm, uf, wd, rd, tmax=unwind + 2)
    ctx.trace(("period", m, m_ref))
    ctx.require(m == m_ref, "C19.period_formula",
                lambda: {"cm": cm, "uf": uf, "wd": wd, "rd": rd, "period": m, "aupy_herrmann": m_ref})
    m = int(m)
    conv_ok = {"l": True, "n": True}
    for n in range(1, nmax + 1):
        sched = cs.PeriodicDiskRevolve(n, cm, uf=uf, ub=ub, wd=wd, rd=rd)
        writes, loads = [], {}
        seg_steps = {}
        phase = "forward"
        late_write = None
        sweep_to = 0
        for a in sched:
            k = action_kind(a)
            if k == "Forward":
                n0, n1, wi, wa, st = a.args
                if st_name(st) == "DISK":
                    if phase == "forward":
                        writes.append(n0)
                    else:
                        late_write = n0
                if phase == "reverse" or True:
                    seg_steps.setdefault(phase, []).append((n0, n1))
            elif k in ("Copy", "Move"):
                if st_name(a.args[1]) == "DISK":
                    loads[a.args[0]] = loads.get(a.args[0], 0) + 1
            elif k == "EndForward":
                phase = "reverse"
            elif k == "EndReverse":
                break
        ctx.trace(("n", n, tuple(writes), tuple(sorted(loads.items())),
                   tuple(seg_steps.get("forward", [])), tuple(seg_steps.get("reverse", []))))
        info = lambda: {"n": n, "cm": cm, "period": m, "disk_writes_at": writes, "loads": loads,  # noqa: E731
                        "uf": uf, "wd": wd, "rd": rd}
        exp = {"l": [c for c in range(0, n, m) if (n - 1) - c > m],
               "n": [c for c in range(0, n, m) if n - c > m]}
        for key in ("l", "n"):
            if writes != exp[key]:
                conv_ok[key] = False
        ctx.require(writes == exp["l"] or writes == exp["n"], "C19.periodic_writes", info)
        ctx.require(late_write is None, "C19.late_disk_write", info)
        ctx.require(sorted(loads) == sorted(writes) and all(v == 1 for v in loads.values()),
                    "C19.read_once", info)
        # forward steps spent in each segment
        bounds = writes + [n] if writes else [n]
        starts = writes if writes else []
        last_start = (writes[-1] + m) if writes else 0

        def T(L):
            return L + oracles.E_bin(L, min(cm, L - 1)) if L > 1 else 1
        rev = seg_steps.get("reverse", [])
        for c in writes:
            got = sum(b - a_ for a_, b in rev if c <= a_ < c + m)
            ctx.require(got == T(m), "C19.segment_steps",
                        lambda: dict(info(), segment_start=c, forward_steps=got, revolve_optimum=T(m)))
        Llast = n - last_start
        got = sum(b - a_ for ph in ("forward", "reverse") for a_, b in seg_steps.get(ph, []) if a_ >= last_start)
        ctx.require(got == T(Llast), "C19.segment_steps",
                    lambda: dict(info(), segment_start=last_start, forward_steps=got, revolve_optimum=T(Llast)))
    ctx.require(conv_ok["l"] or conv_ok["n"], "C19.period_depends_on_n",
                lambda: {"cm": cm, "period": m, "note": "the rule deciding when to stop writing is not the same for every n"})
    ctx.cover("__nontrivial__")


# ---------------------------------------------------------------------------
# replay of a CrossHair counterexample (second engine)

def h_xh(ctx, fn, args):
    from . import xh_targets
    try:
        ok = getattr(xh_targets, fn)(**args)
    except PathAbort:
        raise
    except Exception:                                       # noqa: BLE001
        ok = False
    tag = [t for t in ("C05", "C06", "C10", "C13", "C17", "C18") if ctx.is_fatal(t + ".crosshair")]
    ctx.require(bool(ok), (tag[0] if tag else "X") + ".crosshair", {"function": fn, "args": args})


# ---------------------------------------------------------------------------
# C07 / C05: the cost tables themselves against the oracle, at large l (cheap)

def h_tables(ctx, kind, lmax, mmax, vectors=None):
    """kind 'opt0': get_opt_0_table with SYMBOLIC uf, ub (decisions are implied by uf > 0: one
    path) against oracles.CostTables.opt0 and, through uf=1, ub=0, against the binomial closed
    form;  kinds 'optinf' / 'hopt': concrete cost vectors (solver-enumerated choice)."""
    from fractions import Fraction
    from .symx import ExactQ
    from checkpoint_schedules.hrevolve_sequences.revolve import get_opt_0_table
    from checkpoint_schedules.hrevolve_sequences.disk_revolve import get_opt_inf_table
    from checkpoint_schedules.hrevolve_sequences.hrevolve import get_hopt_table
    if kind == "opt0":
        uf = ctx.real("uf", 0, strict=True)
        ub = ctx.real("ub", 0, strict=True)
        try:
            tab = get_opt_0_table(lmax, mmax, uf, ub)
        except PathAbort:
            raise
        except Exception as e:                              # noqa: BLE001
            ctx.fail("C07.table_raises", {"exc": repr(e)})
        T = oracles.CostTables(uf, ub)
        bad = None
        for m in range(1, mmax + 1):
            for l in range(0, lmax + 1):
                got = tab[m][l]
                # closed form of the optimum: (l+1)*ub + E_bin(l+1, min(m, l))*uf
                exp = (l + 1) * ub + (oracles.E_bin(l + 1, min(m, l)) if l >= 1 else 0) * uf
                if not bool(got == exp):
                    bad = (m, l, got, exp)
                    break
            if bad:
                break
        ctx.trace(("opt0", lmax, mmax, bad is None))
        ctx.require(bad is None, "C07.table",
                    lambda: {"table": "get_opt_0_table", "slots": bad[0], "l": bad[1], "entry": bad[2],
                             "optimum": bad[3]}, soft=True)
        ctx.require(bad is None, "C05.table",
                    lambda: {"table": "get_opt_0_table", "slots": bad[0], "l": bad[1], "entry": bad[2],
                             "optimum": bad[3]}, soft=True)
        ctx.cover("__nontrivial__")
        return
    vec = ctx.choice("cost_i", [tuple(v) for v in vectors])
    uf, ub, wd, rd = (ExactQ(Fraction(x)) for x in vec)
    T = oracles.CostTables(uf, ub, wd, rd)
    bad = None
    try:
        if kind == "optinf":
            for cm in range(1, mmax + 1):
                tab = get_opt_inf_table(lmax, cm, uf, ub, rd, wd, True)
                for l in range(0, lmax + 1):
                    if not bool(tab[l] == T.optinf(l, cm)):
                        bad = ("get_opt_inf_table", cm, l, tab[l], T.optinf(l, cm))
                        break
                if bad:
                    break
        else:
            c0, c1 = mmax
            optp, opt = get_hopt_table(lmax, (c0, c1), (0, wd), (0, rd), ub, uf)
            for l in range(0, lmax + 1):
                for m in range(1, c0 + 1):
                    if not bool(opt[0][l][m] == T.hopt(0, l, m, c0)):
                        bad = ("hopt level 0", m, l, opt[0][l][m], T.hopt(0, l, m, c0))
                for m in range(0, c1 + 1):
                    if not bool(opt[1][l][m] == T.hopt(1, l, m, c0)):
                        bad = ("hopt level 1", m, l, opt[1][l][m], T.hopt(1, l, m, c0))
                    if m >= 1 and l >= 1 and not bool(optp[1][l][m] == T.hoptp(1, l, m, c0)):
                        bad = ("hoptp level 1", m, l, optp[1][l][m], T.hoptp(1, l, m, c0))
                if bad:
                    break
    except PathAbort:
        raise
    except Exception as e:                                  # noqa: BLE001
        ctx.fail("C07.table_raises", {"exc": repr(e), "kind": kind})
    ctx.trace((kind, lmax, bad is None))
    ctx.require(bad is None, "C07.table",
                lambda: {"table": bad[0], "slots": bad[1], "l": bad[2], "entry": bad[3], "optimum": bad[4],
                         "costs": vec})
    ctx.cover("__nontrivial__")

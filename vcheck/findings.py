"""Known findings (DESIGN 3.7).  A discriminator pins the root cause of an open
finding on the replayed counterexample; anything else is a fresh VIOLATION."""
from __future__ import annotations


def discriminate(finding, rec):
    d = finding.get("discriminator")
    if not d:
        return True
    kind = d.get("kind")
    info = rec.get("info") or {}
    if kind == "info_equals":
        return all(info.get(k) == v for k, v in d["items"].items())
    if kind == "inputs_equal":
        return all(str(rec["inputs"].get(k)) == str(v) for k, v in d["items"].items())
    if kind == "params_equal":
        return all(rec["params"].get(k) == v for k, v in d["items"].items())
    return False

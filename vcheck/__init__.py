"""Solver-based checks for checkpoint_schedules (see /verif/DESIGN.md)."""

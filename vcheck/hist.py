"""C15: a stream depends only on its own parameters.

A symbolic history of prior operations (the solver enumerates the feasible
choice vectors and certifies exhaustion) precedes / is interleaved with a target
schedule whose stream is compared with the baseline computed once in a FRESH
interpreter."""
from __future__ import annotations

import json
import os
import subprocess
import sys

from .symx import PathAbort
from .stream import silence_repo_output, construct, action_kind, st_name

# (constructor parameters, finalisation step for online classes)
SPECS = [
    {"cls": "Multistage", "n": 5, "ram": 1, "disk": 1, "trajectory": "maximum"},
    {"cls": "Multistage", "n": 5, "ram": 0, "disk": 2, "trajectory": "maximum"},
    {"cls": "Multistage", "n": 7, "ram": 2, "disk": 0, "trajectory": "revolve"},
    {"cls": "Multistage", "n": 7, "ram": 2, "disk": 3, "trajectory": "maximum"},
    {"cls": "Mixed", "n": 5, "s": 2, "storage": "RAM"},
    {"cls": "Mixed", "n": 5, "s": 1, "storage": "DISK"},
    {"cls": "Mixed", "n": 6, "s": 2, "storage": "DISK"},
    {"cls": "Mixed", "n": 5, "s": 9, "storage": "DISK"},
    {"cls": "Mixed", "n": 7, "s": 3, "storage": "RAM"},
    {"cls": "TwoLevel", "n": 5, "period": 2, "b": 1, "storage": "RAM", "trajectory": "maximum"},
    {"cls": "TwoLevel", "n": 7, "period": 3, "b": 2, "storage": "DISK", "trajectory": "revolve"},
    {"cls": "HRevolve", "n": 5, "ram": 1, "disk": 1, "uf": 1, "ub": 1, "wd": 2, "rd": 2},
    {"cls": "HRevolve", "n": 6, "ram": 2, "disk": 1, "uf": 1, "ub": 2, "wd": 0.5, "rd": 0.25},
    {"cls": "Revolve", "n": 5, "ram": 2, "uf": 1, "ub": 1, "wd": 2, "rd": 2},
    {"cls": "Revolve", "n": 6, "ram": 1, "uf": 1, "ub": 1, "wd": 2, "rd": 2},
    {"cls": "DiskRevolve", "n": 6, "ram": 1, "uf": 1, "ub": 1, "wd": 2, "rd": 2},
    {"cls": "PeriodicDiskRevolve", "n": 7, "ram": 1, "uf": 1, "ub": 1, "wd": 2, "rd": 2},
    {"cls": "SingleMemory", "n": 4},
    {"cls": "SingleDiskCopy", "n": 3},
    {"cls": "SingleDiskMove", "n": 3},
    {"cls": "None", "n": 3},
]
HELPERS = [("optimal_steps_binomial", 5, 2), ("optimal_steps_binomial", 7, 9), ("optimal_steps_mixed", 5, 2),
           ("mixed_step_memoization", 5, 1), ("mixed_step_memoization", 7, 3), ("optimal_steps_mixed", 6, 9),
           ("mixed_steps_tabulation", 7, 3)]


class Live:
    """A schedule being executed with the documented finalisation protocol."""

    def __init__(self, spec):
        self.spec = spec
        self.N = spec["n"]
        self.sched = construct(dict(spec))
        self.finalized = spec["cls"] in ("Multistage", "Mixed", "HRevolve", "Revolve", "DiskRevolve",
                                         "PeriodicDiskRevolve")
        self.done = False
        self.passes = 0
        self.out = []

    def observers(self):
        s = self.sched
        from checkpoint_schedules.schedule import StorageType
        return (s.n, s.r, s.max_n, s.is_exhausted, s.is_running,
                tuple(bool(s.uses_storage_type(t)) for t in (StorageType.RAM, StorageType.DISK)))

    def step(self):
        if self.done:
            return None
        try:
            a = next(self.sched)
        except StopIteration:
            self.done = True
            self.out.append(("stop",))
            return None
        k = action_kind(a)
        rec = (k,) + tuple(st_name(x) if st_name(x) else x for x in a.args)
        self.out.append(rec)
        if k == "Forward" and not self.finalized and min(a.args[1], self.N) == self.N:
            self.sched.finalize(self.N)
            self.finalized = True
        if k == "EndReverse":
            self.passes += 1
            if self.passes >= 2 or self.spec["cls"] not in ("SingleMemory", "SingleDiskCopy", "TwoLevel"):
                self.done = True
        if k == "EndForward" and self.spec["cls"] == "None":
            self.done = True
        if len(self.out) > 5000:
            self.done = True
        return rec

    def run(self, observe="none", at=0, partner=None):
        i = 0
        while not self.done:
            self.step()
            if observe == "all" or (observe == "at" and i == at):
                self.observers()
            if partner is not None and not partner.done:
                partner.step()
            i += 1
        return self.out


def baseline_streams():
    """Run in a fresh interpreter: python -m vcheck.hist"""
    silence_repo_output()
    out = []
    for spec in SPECS:
        out.append(Live(spec).run())
    return out


_BASE = None


def get_baseline():
    global _BASE
    if _BASE is None:
        here = os.path.dirname(os.path.dirname(os.path.abspath(__file__)))
        p = subprocess.run([sys.executable, "-m", "vcheck.hist"], cwd=here, capture_output=True,
                           text=True, timeout=600)
        if p.returncode != 0:
            raise RuntimeError("baseline interpreter failed: " + p.stderr[-800:])
        _BASE = [[tuple(a) for a in s] for s in json.loads(p.stdout)]
    return _BASE


def do_op(op, live):
    kind = op[0]
    if kind == "exhaust":
        Live(SPECS[op[1]]).run()
    elif kind == "advance":
        lv = Live(SPECS[op[1]])
        for _ in range(op[2]):
            lv.step()
        live.append(lv)
    elif kind == "helper":
        name, n, s = HELPERS[op[1]]
        import checkpoint_schedules.multistage as ms
        import checkpoint_schedules.mixed as mx
        fn = getattr(ms, name, None) or getattr(mx, name)
        fn(n, s)
    elif kind == "observe":
        for lv in live:
            lv.observers()
    elif kind == "nothing":
        pass


def alphabet(tier):
    ops = [("nothing",), ("observe",)]
    idx = range(len(SPECS)) if tier != "quick" else [0, 2, 4, 5, 7, 9, 11, 13, 16]
    for i in idx:
        ops.append(("exhaust", i))
        ops.append(("advance", i, 3))
    if tier != "quick":
        for i in idx:
            ops.append(("advance", i, 7))
    for j in range(len(HELPERS)):
        ops.append(("helper", j))
    return ops


def h_hist(ctx, target, H, tier):
    silence_repo_output()
    base = get_baseline()[target]
    ops = alphabet(tier)
    live = []
    hist = []
    for h in range(H):
        op = ctx.choice("h%d" % h, ops)
        hist.append(op)
        try:
            do_op(op, live)
        except PathAbort:
            raise
        except Exception as e:                              # noqa: BLE001
            ctx.fail("C15.history_op_raises", {"op": op, "exc": repr(e)})
    observe = ctx.choice("observe", ["none", "all", "at"])
    partner = None
    pi = ctx.choice("partner", [None, 4, 11] if tier == "quick" else [None, 1, 4, 11, 9])
    if pi is not None:
        partner = Live(SPECS[pi])
    try:
        got = Live(SPECS[target]).run(observe=observe, at=2, partner=partner)
    except PathAbort:
        raise
    except Exception as e:                                  # noqa: BLE001
        ctx.fail("C15.stream_differs", {"history": hist, "exc": repr(e)})
    got = [tuple(a) for a in got]
    ctx.trace(("stream", tuple(got)))
    k = 0
    while k < min(len(got), len(base)) and got[k] == base[k]:
        k += 1
    ctx.require(len(got) == len(base) == k, "C15.stream_differs",
                lambda: {"target": SPECS[target], "history": hist, "observe": observe, "partner": pi,
                         "first_difference_at": k, "got": got[k:k + 2], "fresh_interpreter": base[k:k + 2]})
    ctx.cover("__nontrivial__")


# ---------------------------------------------------------------------------
# same-family pairs: one prior schedule of the same class, parameters from a box

def pair_box(cls, tier):
    q = tier == "quick"
    out = []
    if cls == "Multistage":
        for n in range(2, (8 if q else 12) + 1):
            for ram in range(0, 3):
                for disk in range(0, 3):
                    if ram + disk >= 1:
                        for traj in ("maximum", "revolve"):
                            out.append({"cls": cls, "n": n, "ram": ram, "disk": disk, "trajectory": traj})
    elif cls == "Mixed":
        for n in range(2, (9 if q else 14) + 1):
            for s in range(1, 5):
                out.append({"cls": cls, "n": n, "s": s, "storage": "DISK" if (n + s) % 2 else "RAM"})
    elif cls == "TwoLevel":
        for n in range(2, (7 if q else 10) + 1):
            for p in range(1, 5):
                for b in range(0, 3):
                    out.append({"cls": cls, "n": n, "period": p, "b": b, "storage": "RAM" if b % 2 else "DISK",
                                "trajectory": "maximum"})
    else:
        costs = {"uf": 1, "ub": 1, "wd": 2, "rd": 2}
        for n in range(2, (9 if q else 13) + 1):
            for ram in range(1, 4):
                if cls == "HRevolve":
                    for disk in range(0, 4 if q else 5):
                        out.append(dict(costs, cls=cls, n=n, ram=ram, disk=disk))
                else:
                    out.append(dict(costs, cls=cls, n=n, ram=ram))
    return out


_PAIR_BASE = {}


def pair_baseline(cls, tier):
    key = (cls, tier)
    if key not in _PAIR_BASE:
        here = os.path.dirname(os.path.dirname(os.path.abspath(__file__)))
        p = subprocess.run([sys.executable, "-m", "vcheck.hist", "pair", cls, tier], cwd=here,
                           capture_output=True, text=True, timeout=1200)
        if p.returncode != 0:
            raise RuntimeError("baseline interpreter failed: " + p.stderr[-800:])
        _PAIR_BASE[key] = [[tuple(a) for a in st] for st in json.loads(p.stdout)]
    return _PAIR_BASE[key]


def h_hist_pair(ctx, cls, tier, first, cls_first=None, cost_first=None):
    """Schedule `first` of the box is built and exhausted (or only advanced), then a
    target of class cls is compared with its fresh-interpreter stream.  cls_first: the
    first schedule comes from another class's box; cost_first: it gets another cost vector."""
    silence_repo_output()
    box = pair_box(cls, tier)
    base = pair_baseline(cls, tier)
    fbox = pair_box(cls_first, tier) if cls_first else box
    if cost_first:
        fbox = [dict(b, uf=cost_first[0], ub=cost_first[1], wd=cost_first[2], rd=cost_first[3]) for b in fbox]
    how = ctx.choice("how", ["exhaust", "advance", "construct-only"])
    t = ctx.int("target", 0, len(box) - 1, eager=True)
    try:
        lv = Live(fbox[first])
        if how == "exhaust":
            lv.run()
        elif how == "advance":
            for _ in range(4):
                lv.step()
        got = Live(box[t]).run()
    except PathAbort:
        raise
    except Exception as e:                                  # noqa: BLE001
        ctx.fail("C15.stream_differs", {"first": fbox[first], "target": box[t], "exc": repr(e)})
    got = [tuple(a) for a in got]
    ctx.trace(("stream", tuple(got)))
    b = base[t]
    k = 0
    while k < min(len(got), len(b)) and got[k] == b[k]:
        k += 1
    ctx.require(len(got) == len(b) == k, "C15.stream_differs",
                lambda: {"target": box[t], "history": [(how, fbox[first])],
                         "first_difference_at": k, "got": got[k:k + 2], "fresh_interpreter": b[k:k + 2]})
    ctx.cover("__nontrivial__")


def h_hist_long(ctx, cls, tier):
    """A long history: every instance of the class box is built (and exhausted, advanced or only
    constructed) once, then every instance is built AGAIN -- in the same or in reverse order --
    and its stream compared with the fresh-interpreter baseline.  Aims at caches with a capacity /
    eviction policy, which two-operation histories cannot fill."""
    silence_repo_output()
    box = pair_box(cls, tier)
    base = pair_baseline(cls, tier)
    how = ctx.choice("how", ["exhaust", "advance", "construct-only"])
    order = ctx.choice("order", ["same", "reverse", "interleaved"])
    keep = []
    try:
        for spec in box:
            lv = Live(spec)
            if how == "exhaust":
                lv.run()
            elif how == "advance":
                for _ in range(4):
                    lv.step()
                keep.append(lv)
        idx = list(range(len(box)))
        if order == "reverse":
            idx.reverse()
        elif order == "interleaved":
            idx = idx[::2] + idx[1::2]
        bad = None
        for t in idx:
            got = [tuple(a) for a in Live(box[t]).run()]
            if got != base[t]:
                k = 0
                while k < min(len(got), len(base[t])) and got[k] == base[t][k]:
                    k += 1
                bad = (box[t], k, got[k:k + 2], base[t][k:k + 2])
                break
    except PathAbort:
        raise
    except Exception as e:                                  # noqa: BLE001
        ctx.fail("C15.stream_differs", {"long_history_of": cls, "exc": repr(e)})
    ctx.trace(("long", cls, how, order, bad is None))
    ctx.require(bad is None, "C15.stream_differs",
                lambda: {"target": bad[0], "history": "all %d instances of the %s box (%s), then rebuilt in %s order"
                         % (len(box), cls, how, order), "first_difference_at": bad[1], "got": bad[2],
                         "fresh_interpreter": bad[3]})
    ctx.cover("__nontrivial__")


if __name__ == "__main__":
    if len(sys.argv) > 1 and sys.argv[1] == "pair":
        silence_repo_output()
        print(json.dumps([Live(spec).run() for spec in pair_box(sys.argv[2], sys.argv[3])]))
    else:
        print(json.dumps(baseline_streams()))

"""Regenerates /verif/MANIFEST.json from vcheck.props (python -m vcheck.manifest)."""
from __future__ import annotations

import json
import os

from . import props

HERE = os.path.dirname(os.path.dirname(os.path.abspath(__file__)))
ALL = ["C%02d" % i for i in range(1, 20)]


def build():
    checks = []
    for pid in ALL:
        spec = props.PROPS.get(pid)
        if spec is None:
            continue
        checks.append({
            "property_id": pid,
            "quick_cmd": "./check %s --tier quick" % pid,
            "thorough_cmd": "./check %s --tier thorough" % pid,
            "evidence_file": "evidence/%s.json" % pid,
            "replay_cmd_template": "./check replay {path}",
            "engine": "symx",
            "level_claimed": {
                "category": "model_checking",
                "text": spec.get("level_text", props.DEFAULT_LEVEL_TEXT),
                "design_ref": spec.get("design_ref", "DESIGN.md section 5, " + pid),
            },
            "level_note": spec.get("level_note", props.DEFAULT_LEVEL_NOTE),
            "technique": spec.get("technique_short", props.DEFAULT_TECHNIQUE_SHORT),
        })
    na = [{"property_id": pid, "reason": props.NOT_APPLICABLE.get(
        pid, "check not built yet (work in progress; see DESIGN.md section 5 for the plan)")}
        for pid in ALL if pid not in props.PROPS]
    return {
        "version": 1,
        "setup_cmd": "./setup.sh",
        "hooks": {
            "guard": "CHECKPOINT_SCHEDULES_VERIF",
            "enable": "no hooks: every observation point is public API; nothing in /repo is guarded",
            "baseline_off_cmd": "cd /repo && /venv/bin/python -m pytest -ra -q -p no:cacheprovider --timeout=900 --continue-on-collection-errors",
            "source_commits": [],
            "add_only": True,
        },
        "engines": [
            {"name": "symx", "path": "vcheck/symx.py",
             "serves_properties": [c["property_id"] for c in checks],
             "kind_free_text": "re-execution symbolic execution of the real Python modules over z3 "
                               "(proxy integers/reals, incremental solver, path-tree closure), "
                               "with a concrete twin run of every path against the real code"},
        ],
        "checks": checks,
        "not_applicable": na,
        "notes": "Exit 0 held / 1 VIOLATION / 2 inconclusive or harness error. Findings: known_findings.json. "
                 "Design: DESIGN.md.",
    }


if __name__ == "__main__":
    m = build()
    with open(os.path.join(HERE, "MANIFEST.json"), "w") as f:
        json.dump(m, f, indent=1)
    print("MANIFEST.json: %d checks, %d not_applicable" % (len(m["checks"]), len(m["not_applicable"])))

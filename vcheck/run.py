"""Command line driver:  python -m vcheck.run <PROPERTY> [--tier quick|thorough]
                         python -m vcheck.run replay <file>

Exit status: 0 property held on everything explored (known findings are
printed as KNOWN-FINDING lines); 1 + "VIOLATION property=<id> replay=<path>";
2 inconclusive / harness error (never on the unchanged tree)."""
from __future__ import annotations

import hashlib
import json
import multiprocessing as mp
import os
import subprocess
import sys
import time

HERE = os.path.dirname(os.path.dirname(os.path.abspath(__file__)))
# mutation self-tests against a scratch tree must not overwrite the real evidence
EVID = os.environ.get("VERIF_EVIDENCE_DIR") or os.path.join(HERE, "evidence")
REPLAYS = os.path.join(EVID, "replays")
FINDINGS_FILE = os.environ.get("VERIF_FINDINGS_FILE") or os.path.join(HERE, "known_findings.json")


def _fatal_pred(prefixes):
    prefixes = tuple(prefixes)
    return lambda tag: tag.startswith(prefixes)


def _dead_job(job, status, message):
    return {"status": status, "message": "%s: %s" % (job["name"], message),
            "paths": 0, "paths_ok": 0, "validated": 0, "failures": [], "failures_total": 0,
            "stats": {}, "samples": [], "covers": {}, "exhaustive": False, "nontrivial": 0,
            "functions": [], "paths_assume": 0, "paths_noteval": 0, "noteval_reasons": {},
            "query_log": [], "job": job["name"], "harness": job["harness"],
            "params": job["params"], "wall_s": 0.0}


def run_job(job):
    """Executed in a worker process: the job itself runs in a forked child under a hard
    wall-clock limit (quick: deadline + 300 s; thorough: 2 x deadline + 600 s), so that a solver call that ignores its
    timeout, or a crash inside the solver library, costs one inconclusive job instead of
    a check that never returns."""
    import pickle
    import select
    import signal
    from . import harnesses        # noqa: F401  (imported before the fork: children start warm)
    from . import explore          # noqa: F401
    if os.environ.get("VERIF_NO_ISOLATION"):
        return _run_job(job)
    limit = job.get("hard_limit") or 2 * job.get("deadline", 600) + 600
    t0 = time.time()
    rfd, wfd = os.pipe()
    pid = os.fork()
    if pid == 0:
        code = 0
        try:
            os.close(rfd)
            d = _run_job(job)
            with os.fdopen(wfd, "wb") as f:
                pickle.dump(d, f)
        except BaseException:      # noqa: BLE001
            code = 3
        finally:
            os._exit(code)
    os.close(wfd)
    chunks = []
    timed_out = False
    try:
        while True:
            left = t0 + limit - time.time()
            if left <= 0:
                timed_out = True
                break
            r, _, _ = select.select([rfd], [], [], min(left, 5.0))
            if r:
                b = os.read(rfd, 1 << 20)
                if not b:
                    break
                chunks.append(b)
    finally:
        os.close(rfd)
    if timed_out:
        try:
            os.kill(pid, signal.SIGKILL)
        except ProcessLookupError:
            pass
    _, st = os.waitpid(pid, 0)
    if timed_out:
        d = _dead_job(job, "inconclusive", "hard wall-clock limit of %d s exceeded; job killed" % limit)
    else:
        try:
            d = pickle.loads(b"".join(chunks))
        except Exception as e:     # noqa: BLE001
            d = _dead_job(job, "harness-error", "worker process died (wait status %d): %r" % (st, e))
    d["wall_s"] = time.time() - t0
    return d


def _run_job(job):
    from . import harnesses
    from .explore import explore
    t0 = time.time()
    fn = harnesses.get(job["harness"])
    try:
        res = explore(fn, job["params"], fatal=_fatal_pred(job["fatal"]),
                      deadline_s=job.get("deadline", 600), name=job["name"],
                      max_paths=job.get("max_paths"), validate=job.get("validate", True),
                      log_queries=job.get("log_queries", False))
        d = res.as_dict()
    except BaseException as e:   # noqa: BLE001
        import traceback
        d = {"status": "harness-error", "message": "%s: %s\n%s" % (job["name"], e, traceback.format_exc()[-1500:]),
             "paths": 0, "paths_ok": 0, "validated": 0, "failures": [], "failures_total": 0,
             "stats": {}, "samples": [], "covers": {}, "exhaustive": False, "nontrivial": 0,
             "functions": [], "paths_assume": 0, "paths_noteval": 0, "noteval_reasons": {},
             "query_log": []}
    d["job"] = job["name"]
    for rec in d["failures"]:
        rec["harness"] = job["harness"]
        rec["job"] = job["name"]
    d["harness"] = job["harness"]
    d["params"] = job["params"]
    d["wall_s"] = time.time() - t0
    return d


def replay_file(path):
    """Re-run one recorded counterexample with plain python values against /repo.
    -> (reproduced, detail)"""
    from . import harnesses
    from .explore import run_concrete, _jsonable
    from .symx import plain
    from fractions import Fraction
    rec = json.load(open(path))
    fn = harnesses.get(rec["harness"])
    assignment = {k: Fraction(v) if isinstance(v, str) else v for k, v in rec["inputs"].items()}
    out = {}
    reproduced = False
    modes = ["exact"]
    if rec.get("float_exact"):
        modes.insert(0, "float")
    for mode in modes:
        ctx, status = run_concrete(fn, rec["params"], assignment,
                                   fatal=_fatal_pred(rec["fatal"]), real_as=mode)
        tags = [f[0] for f in ctx.failures]
        out[mode] = {"status": status, "failed_tags": tags,
                     "failures": _jsonable(ctx.failures[:3]),
                     "trace_tail": _jsonable(plain(ctx.trace_items)[-30:])}
        if rec["tag"] in tags:
            reproduced = True
        elif mode == "float":
            # the inputs are exactly representable floats: what a user would pass must
            # reproduce; a failure only under the exact-rational number type does not count
            out["note"] = "does not reproduce with float inputs"
            return False, out
    return reproduced, out


def _float_exact(inputs):
    from fractions import Fraction
    for v in inputs.values():
        if isinstance(v, str):
            q = Fraction(v)
            d = q.denominator
            if d & (d - 1) or d > 2 ** 20 or abs(q) > 2 ** 30:
                return False
    return True


def load_findings():
    try:
        return json.load(open(FINDINGS_FILE)).get("findings", [])
    except FileNotFoundError:
        return []


def match_finding(findings, prop, rec):
    """An *open* finding suppresses a violation only if property, harness class,
    tag and discriminator all match."""
    from .findings import discriminate
    for f in findings:
        if f.get("status") != "open" or f.get("property") != prop:
            continue
        if f.get("tag") != rec["tag"]:
            continue
        if f.get("class") and f["class"] != rec["params"].get("cls"):
            continue
        if discriminate(f, rec):
            return f
    return None


def main(argv=None):
    argv = list(sys.argv[1:] if argv is None else argv)
    if argv and argv[0] == "replay":
        ok, out = replay_file(argv[1])
        rec = json.load(open(argv[1]))
        print(json.dumps(out, indent=1)[:6000])
        if ok:
            print("VIOLATION property=%s replay=%s" % (rec["property"], argv[1]))
            return 1
        print("replay: counterexample does NOT reproduce on this tree")
        return 0
    prop = argv[0]
    tier = os.environ.get("VERIF_TIER", "quick")
    if "--tier" in argv:
        tier = argv[argv.index("--tier") + 1]
    seed = int(os.environ.get("VERIF_SEED", "0") or 0)
    only = None
    if "--only" in argv:
        only = argv[argv.index("--only") + 1]
    from . import props
    spec = props.PROPS[prop]
    jobs = spec["jobs"](tier)
    if only:
        jobs = [j for j in jobs if only in j["name"]]
    for j in jobs:
        j.setdefault("fatal", spec["fatal"])
        if tier == "thorough":
            j["log_queries"] = True
        else:
            # quick tier: the slowest job takes under a minute on the unchanged tree; a changed
            # tree that makes the encoding hard must still get an answer in bounded time
            j["deadline"] = min(j.get("deadline", 600), 600)
            # the deadline is looked at before every solver query (time-out 120 s): a job that is
            # still running 300 s after it is stuck outside the solver (e.g. a loop that a change
            # made endless) and is killed
            j["hard_limit"] = j["deadline"] + 300
    # big jobs first; the seed only perturbs the order
    jobs.sort(key=lambda j: (-j.get("weight", 1), hashlib.md5((j["name"] + str(seed)).encode()).hexdigest()))
    t0 = time.time()
    os.makedirs(REPLAYS, exist_ok=True)
    nproc = int(os.environ.get("VERIF_JOBS", "16"))
    results = []
    # oracle self-check: the recurrences the oracles transcribe against the optimum over ALL
    # executable streams found by exhaustive search on tiny problems (vcheck/brute.py)
    selfchecks = {}
    if spec.get("selfcheck") and not only:
        from . import brute, oracles
        oracles.selfcheck()
        for w in spec["selfcheck"]:
            ts = time.time()
            try:
                selfchecks[w] = dict(brute.selfcheck(w, nmax=5 if tier == "quick" else 7),
                                     wall_s=round(time.time() - ts, 1), nmax=5 if tier == "quick" else 7)
            except AssertionError as e:
                print("HARNESS-ERROR oracle self-check failed (%s): %r" % (w, e.args))
                return 2
    # vacuity guard: the reachability twin of the first job must produce a
    # violation that replays concretely
    from .vacuity import reachability_witness
    vac = reachability_witness(spec, jobs, tier)
    with mp.get_context("fork").Pool(nproc) as pool:
        for d in pool.imap_unordered(run_job, jobs, chunksize=1):
            results.append(d)
            if os.environ.get("VERIF_VERBOSE"):
                print("  job %-40s %-12s paths=%-6d fail=%-4d %.1fs %s" % (
                    d["job"], d["status"], d["paths"], d["failures_total"], d["wall_s"],
                    d["message"][:300]), flush=True)
    from .evidence import write_evidence
    findings = load_findings()
    violations, known, broken = [], [], []
    for d in results:
        if d["status"] != "ok":
            broken.append(d)
        for rec in d["failures"]:
            rec = dict(rec)
            rec["property"] = prop
            rec["fatal"] = list(spec["fatal"])
            rec["float_exact"] = _float_exact(rec["inputs"])
            f = match_finding(findings, prop, rec)
            if f is not None:
                known.append((f, rec))
            else:
                violations.append(rec)
    # write replay files, confirm each in a fresh interpreter
    confirmed = []
    seen = set()
    for rec in violations:
        key = (rec["harness"], rec["tag"], json.dumps(rec["params"], sort_keys=True, default=str),
               json.dumps(rec["inputs"], sort_keys=True))
        if key in seen:
            continue
        seen.add(key)
        if len(confirmed) >= 8:
            break
        digest = hashlib.sha1(repr(key).encode()).hexdigest()[:12]
        path = os.path.join(REPLAYS, "%s-%s.json" % (prop, digest))
        json.dump(rec, open(path, "w"), indent=1, default=str)
        p = subprocess.run([sys.executable, "-m", "vcheck.run", "replay", path], cwd=HERE,
                           capture_output=True, text=True, timeout=600)
        if p.returncode == 1 and "VIOLATION property=" in p.stdout:
            confirmed.append(path)
        else:
            broken.append({"job": rec["harness"], "status": "harness-error",
                           "message": "fresh-interpreter replay of %s did not reproduce: %s"
                                      % (path, (p.stdout + p.stderr)[-800:])})
    # thorough tier: second engine and second/third solver
    xcheck = {}
    if tier == "thorough" and not only:
        from .xcheck import run_crosshair, recheck_queries
        xh_res, xh_viol = run_crosshair(prop, per_condition_timeout=150)
        xcheck["crosshair"] = xh_res
        for fn, kwargs in xh_viol:
            rec = {"tag": prop + ".crosshair", "inputs": {}, "info": {"function": fn, "args": kwargs},
                   "reproduced": True, "params": {"fn": fn, "args": kwargs}, "harness": "xh",
                   "property": prop, "fatal": [prop + ".crosshair"], "float_exact": True}
            digest = hashlib.sha1(repr((fn, sorted(kwargs.items()))).encode()).hexdigest()[:12]
            path = os.path.join(REPLAYS, "%s-xh-%s.json" % (prop, digest))
            json.dump(rec, open(path, "w"), indent=1, default=str)
            confirmed.append(path)
        entries = [tuple(e) for d in results for e in d.get("query_log", [])]
        import random
        random.Random(seed).shuffle(entries)
        qstats, qbad = recheck_queries(entries)
        xcheck["solvers"] = qstats
        if qbad:
            broken.append({"job": "cross-solver", "status": "harness-error",
                           "message": "solver disagreement: %r" % qbad[:2]})
    wall = time.time() - t0
    status = "ok"
    if vac.get("vacuous") and not confirmed:
        broken.append({"job": "vacuity", "status": "harness-error", "message": vac["vacuous"]})
    if broken:
        status = "inconclusive"
    if confirmed:
        status = "violation"
    write_evidence(prop, tier, seed, spec, results, wall, status, confirmed, known, vac, xcheck, selfchecks)
    shown = set()
    for f, rec in known:
        if f["id"] not in shown:
            shown.add(f["id"])
            print("KNOWN-FINDING: property=%s %s" % (prop, f["text"]))
    for path in confirmed:
        print("VIOLATION property=%s replay=%s" % (prop, os.path.relpath(path, HERE)))
    if violations:
        import collections
        c = collections.Counter((r["tag"], str(r["params"].get("cls", r["harness"]))) for r in violations)
        print("counterexamples kept (tag, class): " + ", ".join("%s/%s x%d" % (k[0], k[1], v) for k, v in sorted(c.items())))
    tot_paths = sum(d["paths"] for d in results)
    print("%s tier=%s jobs=%d paths=%d queries=%d solver_s=%.1f wall=%.1fs status=%s" % (
        prop, tier, len(results), tot_paths,
        sum(d["stats"].get("queries", 0) for d in results),
        sum(d["stats"].get("solver_s", 0) for d in results), wall, status))
    if confirmed:
        return 1
    if broken:
        for d in broken[:5]:
            print("HARNESS-ERROR/INCONCLUSIVE %s: %s" % (d.get("job"), d.get("message", "")[:1500]))
        return 2
    return 0


if __name__ == "__main__":
    sys.exit(main())

"""Property -> harness jobs, fatal tags, bounds per tier (DESIGN.md 4, 5)."""
from __future__ import annotations

from .stream import REVOLVE_FAMILY

STUBS = ["print() in hrevolve_sequences/periodic_disk_revolve.py and multistage.py silenced",
         "warnings 'Numba not available' silenced"]
COST_ASSUMPTION = ("step costs are real numbers (uf, ub > 0, wd, rd >= 0), exact arithmetic; "
                   "IEEE-754 rounding of costs is outside the claim")
PERIODIC_ASSUMPTION = ("PeriodicDiskRevolve: (wd+rd) < C(ram+1+T, T)*uf with the unwinding bound T of the "
                       "period loop (T=3 quick, T=5 thorough); larger ratios are outside the claim")


# per-class bounds of the whole-stream sweep: (n_max, options)
SWEEP = {
    "quick": {
        "Multistage": (20, {}), "Mixed": (20, {}), "TwoLevel": (12, {"bmax": 3, "passes": 2}),
        "SingleDiskCopy": (16, {"passes": 3}), "SingleDiskMove": (16, {}),
        "HRevolve": (14, {"rmax": 2, "dmax": 2}), "Revolve": (16, {"rmax": 3}),
        "DiskRevolve": (14, {"rmax": 3}), "PeriodicDiskRevolve": (14, {"rmax": 2, "unwind": 3}),
    },
    "thorough": {
        "Multistage": (40, {}), "Mixed": (50, {}), "TwoLevel": (30, {"bmax": 4, "passes": 3}),
        "SingleDiskCopy": (60, {"passes": 3}), "SingleDiskMove": (60, {}),
        "HRevolve": (24, {"rmax": 2, "dmax": 2}), "Revolve": (48, {"rmax": 5}),
        "DiskRevolve": (50, {"rmax": 3}), "PeriodicDiskRevolve": (60, {"rmax": 3, "unwind": 5}),
    },
}
HREV_EXTRA = {"quick": [("/r1d3", range(7, 11), {"rmax": 1, "dmin": 3, "dmax": 3})], "thorough": [("/r3d3", range(2, 17), {"rmax": 3, "dmax": 3}),
                                         ("/r1d4", range(2, 17), {"rmax": 1, "dmax": 4})]}


def sweep_bounds(tier):
    B = SWEEP[tier]
    out = {}
    for cls, (nmax, o) in B.items():
        d = {"n": [1, nmax]}
        if cls == "Multistage":
            d.update(ram=">=0 (symbolic, unbounded)", disk=">=0 (symbolic, unbounded)", trajectory="both")
        elif cls == "Mixed":
            d.update(s=">=min(1,n-1) (symbolic, unbounded)", storage="RAM, DISK")
        elif cls == "TwoLevel":
            d.update(period="1..n+1 (n+1 stands for every larger period)", binomial_snapshots=[0, o["bmax"]],
                     storage="RAM, DISK", trajectory="both", passes=o["passes"])
        elif cls in REVOLVE_FAMILY:
            d.update(ram=[1, o["rmax"]], costs="uf, ub > 0, wd, rd >= 0: symbolic reals, whole cost space")
            if cls == "HRevolve":
                d.update(disk=[0, o["dmax"]])
                d["extra_slices"] = ["%s n in %d..%d %r" % (t, r[0], r[-1], oo) for t, r, oo in HREV_EXTRA[tier]]
            if cls == "PeriodicDiskRevolve":
                d["unwinding"] = "(wd+rd) < C(ram+1+T,T)*uf, T=%d" % o["unwind"]
        else:
            d.update(passes=o.get("passes", 1))
        out[cls] = d
    q = tier == "quick"
    out["probes_at_larger_n"] = {
        "note": "sparse, bounded unit ranges; Revolve family with 5 concrete cost vectors instead of symbolic costs",
        "Multistage/Mixed": {"n": [25, 33, 47, 64] if q else [25, 29, 33, 38, 47, 55, 64, 81, 100, 128, 150],
                             "ram<=": 4 if q else 7, "disk<=": 5 if q else 8, "s<=": 8 if q else 14},
        "TwoLevel": {"n": [24, 40, 64] if q else [24, 32, 40, 50, 64, 80, 100], "periods": "5,7,12,16,32,35,n-1,n,n+3",
                     "binomial_snapshots<=": 5 if q else 7},
        "HRevolve": {"n": [30, 45] if q else [26, 30, 36, 45, 56, 64, 80], "ram<=": 4 if q else 5, "disk<=": 4 if q else 5},
        "TwoLevel many snapshots": {"n": [3, 5, 8, 12, 20] if q else [3, 4, 5, 6, 8, 10, 12, 18, 20, 24, 32],
                                    "binomial_snapshots": [6, 7, 9, 12, 16, 17, 20, 30]},
        "TwoLevel period sweep": {"period": [1, 130 if q else 200], "n": "period+1 and 2*period+1", "binomial_snapshots": [0, 1]},
        "many passes": {"passes": 6 if q else 9, "classes": "SingleMemory, SingleDiskCopy n in {1,2,5}/{1,2,3,5,9}, TwoLevel same n "
                        "with b<=2 and n=13 with periods {4,5,13}"},
        "1100 passes": "SingleDiskCopy n=1, SingleMemory n<=5, TwoLevel n=2 (periods 1, 3)",
        "just above 256": "DiskRevolve / PeriodicDiskRevolve n in {258, 260} (thorough also 259, 270), HRevolve(260, 3, 5), default costs",
        "long chains, many RAM units (thorough only)": "HRevolve n in {280, 300} with 22 RAM / 1-2 disk units (default and 10/10 disk costs), 10 RAM / 1 disk",
        "just above 2**16": "Multistage(65539, 0, 1), TwoLevel(period 65540, 0) at n = 65539; thorough also Multistage(70000, 1, 0, revolve), SingleDisk n = 65537",
        "int-cache boundary": {"n": [256, 257] if q else [255, 256, 257, 300], "classes": "all, one or two small configurations each"},
        "Revolve/DiskRevolve/PeriodicDiskRevolve": {"n": [40, 64] if q else [40, 52, 64, 80, 100, 128],
                                                    "ram<=": "6/5/4" if q else "8/7/6"}}
    out["SingleMemory"] = {"n": "symbolic, 1..3*sys.maxsize", "passes": 3}
    out["None"] = {"n": "symbolic, 1..3*sys.maxsize"}
    return out


def sweep_jobs(tier, classes=None, passes=None):
    q = tier == "quick"
    jobs = []
    B = SWEEP[tier]

    def add(cls, n, p, opts=None, w=1, deadline=None):
        if classes is not None and cls not in classes:
            return
        opts = dict(opts or {})
        jobs.append({"harness": "stream", "name": "stream/%s/n=%s%s" % (cls, n, opts.get("tag", "")),
                     "params": {"cls": cls, "n": n, "passes": p, "opts": opts},
                     "weight": w, "deadline": deadline or (900 if q else 3600)})
    for cls, (nmax, o) in B.items():
        for n in range(1, nmax + 1):
            p = o.get("passes", 1)
            if passes and cls in ("TwoLevel", "SingleDiskCopy"):
                p = max(p, passes)
            w = {"HRevolve": 1.35 ** n * 10, "DiskRevolve": n ** 3 / 50.0, "Multistage": n * n / 10.0,
                 "TwoLevel": n * n / 10.0}.get(cls, n / 10.0)
            add(cls, n, p, o, w=w)
    add("SingleMemory", None, 3, w=1)
    add("None", None, 1, w=1)
    for tag, rng, o in HREV_EXTRA[tier]:
        for n in rng:
            add("HRevolve", n, 1, dict(o, tag=tag), w=1.4 ** n * 10)
    # sparse probes at larger n (bounded unit ranges; Revolve family with a few concrete cost
    # vectors instead of symbolic costs): cheap, they look for size thresholds the dense
    # small-n sweep cannot reach
    PV = [("1", "1", "2", "2"), ("3", "1", "1/2", "4"), ("1", "5", "3", "1/4"), ("2", "1", "0", "0"), ("1", "1", "40", "25")]
    big = (25, 33, 47, 64) if q else (25, 29, 33, 38, 47, 55, 64, 81, 100, 128, 150)
    for n in big:
        add("Multistage", n, 1, {"ram_max": 4 if q else 7, "disk_max": 5 if q else 8, "tag": "/probe"}, w=n * 3)
        add("Mixed", n, 1, {"smax": 8 if q else 14, "tag": "/probe"}, w=n * 2)
    for n in ((24, 40, 64) if q else (24, 32, 40, 50, 64, 80, 100)):
        add("TwoLevel", n, 2 if q else 3, {"periods": [5, 7, 12, 16, 32, 35, n - 1, n, n + 3], "bmax": 5 if q else 7,
                                            "tag": "/probe"}, w=n * 6)
    # TwoLevel: many binomial snapshots at small n; every period up to 130/200 with n = p+1, 2p+1
    for n in (3, 5, 8, 12, 20) if q else (3, 4, 5, 6, 8, 10, 12, 18, 20, 24, 32):
        add("TwoLevel", n, 2, {"b_list": [6, 7, 9, 12, 16, 17, 20, 30], "tag": "/manyb"}, w=n * 8)
    for lo in range(1, 131 if q else 201, 10):
        add("TwoLevel", None, 2, {"period_sweep": [lo, lo + 9], "b_list": [0, 1], "tag": "/periods%d" % lo}, w=lo)
    # many adjoint passes of the multi-pass schedules (drift that needs more than 3 passes)
    mp = 6 if q else 9
    add("SingleMemory", None, mp, {"tag": "/passes%d" % mp}, w=2)
    for n in (1, 2, 5) if q else (1, 2, 3, 5, 9):
        add("SingleDiskCopy", n, mp, {"tag": "/passes%d" % mp}, w=n)
        add("TwoLevel", n, mp, {"bmax": 2, "tag": "/passes%d" % mp}, w=n * 6)
    add("TwoLevel", 13, mp, {"periods": [4, 5, 13], "b_list": [1, 3], "tag": "/passes%d" % mp}, w=60)
    # more passes than the interpreter's recursion limit (generator chains that grow per pass)
    add("SingleDiskCopy", 1, 1100, {"tag": "/passes1100", "extra_next": 0}, w=40)
    add("SingleMemory", None, 1100, {"tag": "/passes1100", "Nmax": 5}, w=40)
    add("TwoLevel", 2, 1100, {"periods": [1, 3], "b_list": [0], "tag": "/passes1100"}, w=60)
    for j in jobs[-3:]:
        # where a deep generator chain overflows the interpreter stack depends on the depth of the
        # caller's own stack, so the symbolic run and its twin need not stop at the same action:
        # no trace comparison for these three jobs (a failure is still replayed concretely)
        j["validate"] = False
    # keys / masks that assume a step fits in 8 bits: the Revolve family with disk just above 256
    for n in (258, 260) if q else (258, 259, 260, 270):
        add("DiskRevolve", n, 1, {"rmin": 2, "rmax": 3 if q else 6, "cost_choices": PV[:1], "tag": "/above256"}, w=n * 8)
        add("PeriodicDiskRevolve", n, 1, {"rmin": 3, "rmax": 3 if q else 6, "cost_choices": PV[:1], "tag": "/above256"}, w=n * 6)
    add("HRevolve", 260, 1, {"rmin": 3, "rmax": 3, "dmin": 5, "dmax": 5, "cost_choices": PV[:1], "tag": "/above256"}, w=6000)
    # chunked / 16-bit thresholds: one unit, n just above 2**16 (long but cheap streams)
    add("Multistage", 65539, 1, {"configs": [{"ram": 0, "disk": 1, "trajectory": "maximum"}], "tag": "/above2^16"}, w=30000)
    add("TwoLevel", 65539, 1, {"configs": [{"period": 65540, "b": 0, "storage": "DISK", "trajectory": "maximum"}],
                               "tag": "/above2^16"}, w=30000)
    if not q:
        add("Multistage", 70000, 1, {"configs": [{"ram": 1, "disk": 0, "trajectory": "revolve"}], "tag": "/above2^16"}, w=30000)
        add("SingleDiskCopy", 65537, 2, {"tag": "/above2^16"}, w=30000)
        add("SingleDiskMove", 65537, 1, {"tag": "/above2^16"}, w=30000)
    if not q:
        # long chains with many RAM units (tables capped / truncated at a few hundred steps)
        for n in (280, 300):
            add("HRevolve", n, 1, {"rmin": 22, "rmax": 22, "dmin": 1, "dmax": 2, "cost_choices": PV[:1] + [("1", "1", "10", "10")],
                                    "tag": "/manyram"}, w=20000)
            add("HRevolve", n, 1, {"rmin": 10, "rmax": 10, "dmin": 1, "dmax": 1, "cost_choices": [("1", "1", "10", "10")],
                                    "tag": "/manyram10"}, w=20000)
    # CPython caches small ints up to 256: one probe on either side for every class
    for n in (256, 257) if q else (255, 256, 257, 300):
        add("Multistage", n, 1, {"ram_max": 1, "disk_max": 2, "tag": "/intcache"}, w=n)
        add("Mixed", n, 1, {"smax": 2, "tag": "/intcache"}, w=n * 3)
        add("TwoLevel", n, 2, {"periods": [100, 128, n], "b_list": [0, 2], "tag": "/intcache"}, w=n * 4)
        add("SingleDiskCopy", n, 2, {"tag": "/intcache"}, w=n)
        add("SingleDiskMove", n, 1, {"tag": "/intcache"}, w=n)
        add("Revolve", n, 1, {"rmin": 2, "rmax": 3, "cost_choices": PV[:1], "tag": "/intcache"}, w=n * 4)
        add("DiskRevolve", n, 1, {"rmin": 2, "rmax": 2, "cost_choices": PV[:2], "tag": "/intcache"}, w=n * 6)
        add("PeriodicDiskRevolve", n, 1, {"rmin": 2, "rmax": 2, "cost_choices": PV[:2], "tag": "/intcache"}, w=n * 4)
        add("HRevolve", n, 1, {"rmin": 3, "rmax": 3, "dmin": 2, "dmax": 2, "cost_choices": PV[:1], "tag": "/intcache"},
            w=n * 20)
    for n in ((30, 45) if q else (26, 30, 36, 45, 56, 64, 80)):
        add("HRevolve", n, 1, {"rmin": 1, "rmax": 4 if q else 5, "dmin": 0, "dmax": 4 if q else 5, "cost_choices": PV,
                                "tag": "/probe"}, w=n * 8)
    for n in ((40, 64) if q else (40, 52, 64, 80, 100, 128)):
        add("Revolve", n, 1, {"rmax": 6 if q else 8, "cost_choices": PV, "tag": "/probe"}, w=n * 2)
        add("DiskRevolve", n, 1, {"rmax": 5 if q else 7, "cost_choices": PV, "tag": "/probe"}, w=n * 4)
        add("PeriodicDiskRevolve", n, 1, {"rmax": 4 if q else 6, "cost_choices": PV, "tag": "/probe"}, w=n * 4)
    return jobs


SWEEP_OUTSIDE = ["n beyond the stated per-class bound", "IEEE-754 rounding of costs",
                 "numba-compiled code paths", "more adjoint passes than stated"]
SWEEP_TECH = ("symbolic execution of the real modules with z3 proxies (re-execution DFS, path-tree "
              "closure certified by unsat answers); costs are symbolic reals so each path is a "
              "polyhedral cost region; unit counts are unbounded symbolic integers where the code only "
              "compares them; every path is re-run concretely against the real code and the traces compared")


def sweep_prop(fatal, classes=None, passes=None, extra=None, trusted=None, technique=None):
    def jobs(tier):
        js = sweep_jobs(tier, classes, passes)
        js += [j for j in suite_grid_jobs(tier) if classes is None or j["params"]["cls"] in classes]
        if extra:
            js += extra(tier)
        return js
    return {"fatal": fatal, "jobs": jobs, "bounds": sweep_bounds, "outside": SWEEP_OUTSIDE,
            "stubs": STUBS, "assumptions": [COST_ASSUMPTION, PERIODIC_ASSUMPTION,
                                            "the reference executor (vcheck/monitor.py) is the meaning of the actions"],
            "trusted": trusted or ["vcheck/monitor.py (reference executor, validated against the suite's own executor)",
                                   "z3 4.x / 5.1 (sat/unsat answers)"],
            "technique": technique or SWEEP_TECH}


PROPS = {
    "C01": sweep_prop(["C01.", "X.exception", "X.runaway"]),
    "C02": sweep_prop(["C02.", "X.exception", "X.runaway"]),
    "C03": sweep_prop(["C03."]),
    "C04": sweep_prop(["C04."]),
    "C08": sweep_prop(["C08."]),
    "C09": sweep_prop(["C09.", "X.exception"], passes=3),
    "C11": sweep_prop(["C11."]),
    "C12": sweep_prop(["C12."]),
}

DEFAULT_LEVEL_TEXT = (
    "Bounded symbolic model checking of the real code: within the stated bounds the solver closes the "
    "whole path tree (every unexplored branch has an unsat certificate), so the property holds for every "
    "input in the bounds, including every real cost vector and every unbounded unit count; nothing is "
    "claimed outside the bounds.")
DEFAULT_LEVEL_NOTE = (
    "Trusted: z3, the proxy arithmetic of vcheck/symx.py (guarded by a concrete twin run of every path "
    "against the real code), the reference executor vcheck/monitor.py, the published optimality theorems "
    "behind the oracles; costs are exact reals, IEEE rounding and numba-compiled code are outside.")
DEFAULT_TECHNIQUE_SHORT = "symbolic execution of the real Python code with z3 (bounded, path-tree closure)"
NOT_APPLICABLE = {}

PROPS["C07"] = sweep_prop(
    ["C07."], classes=REVOLVE_FAMILY,
    trusted=["the recurrences Opt_0 / Opt_inf / Opt_k of Aupy et al. (2016) and Herrmann & Pallez (2020), "
             "transcribed in vcheck/oracles.py, are the optimum over all schedules (published theorems)",
             "z3"])


# ---------------------------------------------------------------------------
# lemma based properties

def _job(h, name, params, w=1, deadline=900):
    return {"harness": h, "name": "%s/%s" % (h, name), "params": params, "weight": w,
            "deadline": deadline}


def c10_jobs(tier):
    from .lemmas import FIN_INSTANCES
    L = 4 if tier == "quick" else 6
    jobs = [_job("fin", "%s/L=%d" % (inst, L), {"inst": inst, "L": L}, w=10 if inst == "SingleDiskCopy" else 1,
                 deadline=1800) for inst in FIN_INSTANCES]
    # finalize arguments that are floats equal to integers (short histories)
    for inst in ("SingleMemory", "None", "SingleDiskCopy", "TwoLevel2", "Multistage"):
        jobs.append(_job("fin", "%s/L=3/float" % inst, {"inst": inst, "L": 3, "float_k": True}, w=2, deadline=1800))
    return jobs


PROPS["C10"] = {
    "fatal": ["C10."], "jobs": c10_jobs,
    "bounds": lambda tier: {"history_length": 4 if tier == "quick" else 6,
                            "post_actions_compared": 4,
                            "k": "every finalize argument is an unbounded symbolic integer",
                            "TwoLevel.period": "unbounded symbolic integer >= 1",
                            "offline_instances": "one small instance per offline class (n=4)",
                            "float arguments": "histories of 3 operations where k may be one of 0.0, 1.0, 2.0, 3.0, 5.0, 2.0**63, "
                                               "3*2.0**62 (SingleMemory, None, SingleDiskCopy, TwoLevel period 2, Multistage)"},
    "outside": ["histories longer than the bound", "TwoLevel: actions after EndForward with a symbolic period"],
    "trusted": ["oracles.fin_spec (eight-line specification of finalize)", "z3"],
    "stubs": STUBS, "assumptions": [],
    "technique": "symbolic execution with z3: history shape enumerated by the solver, finalize arguments "
                 "unbounded symbolic integers, each path covers an interval of k",
}


def c18_jobs(tier):
    from .lemmas import KINDS
    jobs = sweep_jobs(tier)
    for ka in KINDS:
        for kb in KINDS:
            jobs.append(_job("action_eq", "%s-%s" % (ka, kb), {"ka": ka, "kb": kb}))
    for k in KINDS:
        jobs.append(_job("action_value", k, {"kind": k}, w=5))
    for k in ("Forward", "Reverse"):
        jobs.append(_job("action_contains", k, {"kind": k}))
    return jobs


PROPS["C18"] = {
    "fatal": ["C18."], "jobs": c18_jobs,
    "bounds": lambda tier: {"emitted_actions": sweep_bounds(tier),
                            "constructed_pairs": "all 36 kind pairs; integer fields unbounded symbolic, "
                                                 "flags and storages enumerated",
                            "repr/len/iter": "integer fields in 0..6, sys.maxsize-1..sys.maxsize+1 or 2*sys.maxsize",
                            "membership": "n0, n1, x unbounded symbolic integers"},
    "outside": SWEEP_OUTSIDE + ["non-integer / non-StorageType arguments of constructed actions"],
    "trusted": ["z3"], "stubs": STUBS, "assumptions": [],
    "technique": "symbolic execution with z3: equality / membership laws decided over all integers; "
                 "emitted actions type-checked in the concrete twin run of every path of the sweep",
}


def nadv_jobs(tier):
    q = tier == "quick"
    jobs = []
    for traj in ("maximum", "revolve"):
        for s in range(1, (7 if q else 13)):
            if s <= 2:
                nmax = 300 if q else 3000       # the optimum is quadratic in n: O(n) paths
            else:
                nmax = 2000 if q else 10 ** 6
            jobs.append(_job("nadv", "%s/s=%d/n<=%d" % (traj, s, nmax),
                             {"s": s, "trajectory": traj, "nmax": nmax},
                             w=100 if s in (2, 3) else 10, deadline=1800 if q else 7000))
    return jobs


def c05_jobs(tier):
    q = tier == "quick"
    jobs = nadv_jobs(tier)
    jobs += sweep_jobs(tier, classes=("Multistage", "Revolve"))
    for n in range(1, (14 if q else 40) + 1):
        jobs.append(_job("optim_helper", "n=%d" % n, {"n": n}, w=n))
    return jobs


PROPS["C05"] = {
    "fatal": ["C05."], "jobs": c05_jobs,
    "bounds": lambda tier: {
        "n_advance lemma": {"n": "symbolic, 2..2000 (s<=2: 300)" if tier == "quick" else "symbolic, 2..10^6 (s<=2: 3000)",
                            "s": [1, 6 if tier == "quick" else 12], "trajectory": "both"},
        "streams": {k: v for k, v in sweep_bounds(tier).items() if k in ("Multistage", "Revolve")},
        "optimal_steps_binomial": {"n": [1, 14 if tier == "quick" else 40], "s": "symbolic, unbounded"},
        "get_opt_0_table": {"l": [0, 140 if tier == "quick" else 320], "slots": [1, 8 if tier == "quick" else 10],
                            "costs": "symbolic uf, ub (one path)"}},
    "outside": ["s > 12 in the kernel lemma", "n beyond the bounds",
                "that the Griewank-Walther closed form is the optimum over ALL schedules (GW2000 Prop. 1, trusted)"],
    "trusted": ["Griewank & Walther (2000), Proposition 1", "oracles.E_bin closed form (cross-checked against the "
                "first-principles recurrence oracles.T_bin at start-up)", "z3"],
    "stubs": STUBS, "assumptions": [COST_ASSUMPTION],
    "technique": "symbolic execution with z3: n_advance run on a symbolic n, each path fixes the binomial level "
                 "so the step is affine in n on an interval and the Bellman equality is decided for the whole "
                 "interval; streams and the published helper checked against the independent closed form",
}


def c06_jobs(tier):
    q = tier == "quick"
    jobs = sweep_jobs(tier, classes=("Mixed",))
    for n in range(1, (14 if q else 36) + 1):
        jobs.append(_job("mixed_planner", "n=%d" % n, {"n": n}, w=n))
    if True:
        # larger problems with few units: where truncated / pruned searches go wrong
        for n in range(15 if q else 37, 131 if q else 201):
            jobs.append(_job("mixed_planner", "n=%d/s<=12" % n, {"n": n, "smax": 12}, w=n * 3, deadline=3000))
        for n in ((205, 229) if q else tuple(range(201, 261, 1))):
            jobs.append(_job("mixed_planner", "n=%d/s=13..16" % n, {"n": n, "smin": 13, "smax": 15 if q else 16},
                             w=n * 6, deadline=3000))
        for n in ((118,) if q else (60, 90, 118, 124, 150, 200)):
            jobs.append({"harness": "stream", "name": "stream/Mixed/n=%d/s<=12" % n,
                         "params": {"cls": "Mixed", "n": n, "passes": 1, "opts": {"smax": 12, "tag": "/s<=12"}},
                         "weight": n * 3, "deadline": 3000})
    return jobs


PROPS["C06"] = {
    "fatal": ["C06."], "jobs": c06_jobs,
    "bounds": lambda tier: {"streams": sweep_bounds(tier)["Mixed"],
                            "planner": {"n": [1, 14 if tier == "quick" else 36], "s": "symbolic, unbounded"},
                            "planner_large": {"n": [15, 130] if tier == "quick" else [37, 200], "s": [1, 12]},
                            "planner_larger": {"n": [205, 229] if tier == "quick" else [201, 260], "s": [13, 15 if tier == "quick" else 16]},
                            "streams_large": {"n": [118] if tier == "quick" else [60, 90, 118, 124, 150, 200], "s": [1, 12]}},
    "outside": ["n beyond the bounds", "that the recurrence of Maddison (2024) is the optimum over ALL schedules (trusted)"],
    "trusted": ["Maddison (2024) section 3: oracles.E_mix is a first-principles transcription", "z3"],
    "stubs": STUBS, "assumptions": [],
    "technique": "symbolic execution with z3 over (n, s) boxes with s unbounded; forward-step totals of the "
                 "real stream and the planner's Bellman equation checked against an independent recurrence",
}


def c13_jobs(tier):
    q = tier == "quick"
    jobs = sweep_jobs(tier, classes=("TwoLevel",))
    jobs.append(_job("twolevel_fwd", "K=%d" % (6 if q else 10), {"K": 6 if q else 10}))
    for j in nadv_jobs(tier):
        jobs.append(j)
    return jobs


PROPS["C13"] = {
    "fatal": ["C13.", "C05.nadv"], "jobs": c13_jobs,
    "bounds": lambda tier: {"forward phase": {"period": "unbounded symbolic integer >= 1",
                                              "binomial_snapshots": "unbounded symbolic integer >= 0",
                                              "actions": 6 if tier == "quick" else 10},
                            "blocks": sweep_bounds(tier)["TwoLevel"],
                            "n_advance lemma": "as C05"},
    "outside": ["n beyond the bound for the block check", "optimality of the binomial count over all schedules (GW2000)"],
    "trusted": ["Griewank & Walther (2000)", "z3"], "stubs": STUBS, "assumptions": [],
    "technique": "symbolic execution with z3: forward phase decided for every period (arguments affine in the "
                 "period); per-block forward-step counts of the real stream against the binomial closed form; "
                 "n_advance kernel lemma with symbolic n",
}


def c14_jobs(tier):
    q = tier == "quick"
    jobs = [_job("split", "n=%d" % n, {"n": n}, w=n * n) for n in range(1, (10 if q else 20) + 1)]
    # sparse probes at larger n (total units s in a few values): rounding / truncation of the weights
    big = [(30, (5, 9)), (45, (7,)), (60, (9, 12)), (64, (9,)), (80, (10,))] if q else \
          [(n, (5, 7, 9, 10, 12, 16)) for n in (24, 30, 36, 45, 52, 60, 62, 64, 72, 80, 90, 100, 128)]
    for n, ss in big:
        jobs.append(_job("split", "n=%d/probe" % n, {"n": n, "s_list": list(ss)}, w=n * 3, deadline=3000))
    return jobs


PROPS["C14"] = {
    "fatal": ["C14."], "jobs": c14_jobs,
    "bounds": lambda tier: {"n": [1, 10 if tier == "quick" else 20], "s": "1..n+1 total units, every split (a, s-a)",
                            "trajectory": "both",
                            "probes": "n in {30,45,60,64,80} with s in {5,7,9,10,12}" if tier == "quick" else
                                      "n in {24,30,36,45,52,60,62,64,72,80,90,100,128} with s in {5,7,9,10,12,16}"},
    "outside": ["n beyond the bound"], "trusted": ["z3"], "stubs": STUBS, "assumptions": [],
    "technique": "symbolic execution with z3 (solver-enumerated (s, trajectory), all splits inside one path); "
                 "per-depth access weights counted from the real stream, minimum disk traffic recomputed independently",
}


def c16_jobs(tier):
    q = tier == "quick"
    jobs = [_job("numba_table", "n=%d" % n, {"n": n}, w=n ** 3) for n in range(1, (12 if q else 26) + 1)]
    jobs += [_job("numba_stream", "n=%d" % n, {"n": n}, w=n ** 3) for n in range(1, (12 if q else 26) + 1)]
    # large n with a single unit (closed-form column only, cheap): entries beyond 2**31
    for n in (65535, 65536, 70000) + (() if q else (100000, 200000)):
        jobs.append(_job("numba_table", "n=%d/s=1" % n, {"n": n, "smax": 1}, w=50))
    jobs.append(_job("numba_stream", "n=70000/s=1", {"n": 70000, "smax": 1}, w=50))
    return jobs


PROPS["C16"] = {
    "fatal": ["C16."], "jobs": c16_jobs,
    "bounds": lambda tier: {"n": [1, 12 if tier == "quick" else 26], "s": "table: min(1,n-1)..n+1; streams: unbounded symbolic",
                            "storage": "RAM, DISK", "large_n_probe": "table and stream with one unit at n in {65535, 65536, 70000} "
                            "(thorough also 100000, 200000): cost entries beyond 2**31"},
    "outside": ["numba-compiled semantics (int64 wrap-around, typed tuples): njit is the identity wrapper here",
                "n beyond the bound"],
    "trusted": ["z3"], "assumptions": [],
    "stubs": STUBS + ["checkpoint_schedules.mixed.numba rebound to a truthy sentinel to force the tabulated branch"],
    "technique": "symbolic execution with z3 (bounded-exhaustive box, proxies concretised at the numpy boundary): "
                 "table entries vs memoised planner, and streams of both code paths compared action by action",
}


def c17_jobs(tier):
    q = tier == "quick"
    N = 6 if q else 12
    jobs = []
    for cls in ("Multistage", "Mixed", "TwoLevel") + REVOLVE_FAMILY:
        jobs.append(_job("domain", "%s/N=%d" % (cls, N), {"cls": cls, "nmax": N}, w=N))
    jobs.append(_job("nadv_invalid", "all", {}))
    # valid tuples with ANY cost vector (uf, ub > 0, wd, rd >= 0, incl. the zero boundaries): the stream
    # must complete -- the Revolve-family part of the sweep for small n, symbolic costs
    jobs += [j for j in sweep_jobs(tier, classes=REVOLVE_FAMILY)
             if isinstance(j["params"]["n"], int) and j["params"]["n"] <= (8 if q else 12) and "probe" not in j["name"]
             and "intcache" not in j["name"] and "above" not in j["name"] and "manyram" not in j["name"]]
    return jobs


PROPS["C17"] = {
    "fatal": ["C17.", "X.exception", "X.runaway", "C02.premature_stop"], "jobs": c17_jobs,
    "bounds": lambda tier: {"n": [-1, 6 if tier == "quick" else 12], "units": "0.. (symbolic, unbounded above; "
                            "Revolve family: ram 0..3, disk 0..2)", "period": [-1, "N+1"],
                            "storage": "all four StorageType members", "costs": "box: defaults; completion of valid Revolve-family "
                            "tuples additionally for every cost vector (symbolic), n <= 8/12"},
    "outside": ["negative unit counts", "non-integer parameters", "(Revolve family, max_n=1, no RAM unit): the class "
                "documentation restricts the family to snapshots_in_ram > 0 while the statement's domain admits "
                "it; either outcome is accepted there, but a failure must precede any action"],
    "trusted": ["the validity predicate transcribed from the property statement (lemmas.h_domain)", "z3"],
    "stubs": STUBS, "assumptions": [],
    "technique": "symbolic execution with z3 over a parameter box around the domain boundary; constructor "
                 "guards are comparisons, so a path covers a range of n / unit counts",
}


def c19_jobs(tier):
    q = tier == "quick"
    jobs = [_job("periodic", "cm=%d" % cm, {"cm": cm, "nmax": 16 if q else 40, "unwind": 3 if q else 5},
                 w=cm, deadline=3000) for cm in range(1, (3 if q else 4) + 1)]
    # many RAM units (the closed form uses float factorial quotients): shorter n range
    # (the period grows like C(cm+T, T), and with it the symbolic Revolve tables: the unwinding
    # bound T shrinks as cm grows; measured 2-90 s per job)
    for cm, nmax, T in (((8, 14, 2),) if q else ((6, 30, 3), (8, 30, 3), (10, 24, 2), (16, 24, 1), (24, 30, 1))):
        jobs.append(_job("periodic", "cm=%d" % cm, {"cm": cm, "nmax": nmax, "unwind": T}, w=cm * 2, deadline=1500))
    return jobs


PROPS["C19"] = {
    "fatal": ["C19."], "jobs": c19_jobs,
    "bounds": lambda tier: {"ram units": [1, 3 if tier == "quick" else 4], "n": [1, 16 if tier == "quick" else 40],
                            "many RAM units": "cm=8, n<=14, T=2" if tier == "quick" else "(cm, n<=, T) in {(6,30,3), (8,30,3), (10,24,2), (16,24,1), (24,30,1)}",
                            "costs": "symbolic reals with (wd+rd) < C(cm+1+T,T)*uf, T=%d" % (3 if tier == "quick" else 5)},
    "outside": ["cost ratios beyond the unwinding bound", "n beyond the bound", "IEEE rounding of (wd+rd)/uf"],
    "trusted": ["Aupy & Herrmann (2017) closed form, transcribed in oracles.m_AH", "Griewank & Walther (2000)", "z3"],
    "stubs": STUBS, "assumptions": [COST_ASSUMPTION, PERIODIC_ASSUMPTION],
    "technique": "symbolic execution with z3: the period loop is run on symbolic costs (ratio compared by "
                 "cross-multiplication, QF_LRA), each path fixes an interval of (wd+rd)/uf; for that region every "
                 "n in the bound is generated and its disk write/read positions and per-segment step counts checked",
}


def c15_jobs(tier):
    from .hist import SPECS
    q = tier == "quick"
    jobs = [_job("hist", "target=%d/%s" % (i, SPECS[i]["cls"]), {"target": i, "H": 2 if q else 2, "tier": tier},
                 w=10, deadline=3000) for i in range(len(SPECS))]
    from .hist import pair_box
    for cls in ("Multistage", "Mixed", "TwoLevel") + REVOLVE_FAMILY:
        nb = len(pair_box(cls, tier))
        for first in range(nb):
            jobs.append(_job("hist_pair", "%s/first=%d" % (cls, first), {"cls": cls, "tier": tier, "first": first},
                             w=3, deadline=3000))
    # cross-class pairs (shared tables / memos between classes) and cross-cost pairs (a cache keyed
    # without the costs): the first schedule comes from another class's box / has another cost vector
    cross = [(a, b) for a in REVOLVE_FAMILY for b in REVOLVE_FAMILY if a != b] + \
            [("Multistage", "TwoLevel"), ("TwoLevel", "Multistage"), ("Multistage", "Mixed"), ("Mixed", "Multistage")]
    step = 4 if q else 2
    for a, b in cross:
        for first in range(0, len(pair_box(a, tier)), step):
            jobs.append(_job("hist_pair", "%s->%s/first=%d" % (a, b, first),
                             {"cls": b, "tier": tier, "first": first, "cls_first": a}, w=3, deadline=3000))
    for a in REVOLVE_FAMILY:
        for first in range(0, len(pair_box(a, tier)), step):
            jobs.append(_job("hist_pair", "%s/othercost/first=%d" % (a, first),
                             {"cls": a, "tier": tier, "first": first, "cost_first": [3, 1, 0.5, 4]}, w=3, deadline=3000))
    for cls in ("Multistage", "Mixed", "TwoLevel") + REVOLVE_FAMILY:
        jobs.append(_job("hist_long", cls, {"cls": cls, "tier": tier}, w=30, deadline=3000))
    for j in jobs:
        # no symbolic value flows into the code here (only solver-enumerated choice indices), so the
        # concrete twin run of a path would be the identical execution: skipped
        j["validate"] = False
    return jobs


PROPS["C15"] = {
    "fatal": ["C15."], "jobs": c15_jobs,
    "bounds": lambda tier: {"history_length": 2, "alphabet": "27 operation instances" if tier == "quick" else "72 operation instances",
                            "targets": 21, "observer_patterns": 3, "interleaved_partner": "none or one of 4 live schedules",
                            "baseline": "streams computed in a fresh interpreter (subprocess)",
                            "same_family_pairs": "every ordered pair (first, target) of a parameter box per class (Multistage n<=8/12, "
                                                 "Mixed n<=9/14, TwoLevel n<=7/10, Revolve family n<=9/13 with ram<=3, disk<=3/4, default costs); "
                                                 "first is exhausted, advanced 4 actions, or only constructed",
                            "long_histories": "per class: all instances of the box built once (exhausted / advanced / constructed), then all rebuilt "
                                              "in the same, reverse or interleaved order (caches with a capacity)",
                            "cross_pairs": "first from another class (all ordered pairs within the Revolve family; Multistage<->TwoLevel, "
                                           "Multistage<->Mixed) or the same class with another cost vector; every 4th/2nd instance of the box as first"},
    "outside": ["histories longer than 2 operations", "parameters outside the instance list (chosen to collide on memo keys)",
                "threads"],
    "trusted": ["z3 (enumeration of feasible choice vectors and certificate of exhaustion)"],
    "stubs": STUBS, "assumptions": [],
    "technique": "symbolic execution with z3 over a discrete history space (solver-enumerated choice vectors, exhaustion "
                 "certified by unsat); target stream compared with a fresh-interpreter baseline. Little solver leverage: "
                 "the inputs are discrete choices (stated in DESIGN.md section 7)",
}


# ---------------------------------------------------------------------------
# the suite's own parameter grid through the monitor (validation of the reference
# executor against the project's tests, DESIGN 3.1)

def suite_grid_jobs(tier):
    q = tier == "quick"
    grid = [(1, (0,)), (2, (1,)), (3, (1, 2)), (5, (2,)), (10, tuple(range(2, 10)))]
    if not q:
        grid += [(100, tuple(range(1, 100, 7))), (250, (25, 125, 225))]
    jobs = []

    def add(cls, n, configs, p=1):
        if configs:
            jobs.append({"harness": "stream", "name": "suitegrid/%s/n=%d" % (cls, n),
                         "params": {"cls": cls, "n": n, "passes": p, "opts": {"configs": configs, "tag": "/suitegrid"}},
                         "weight": n * len(configs), "deadline": 3000})
    for n, S in grid:
        add("Multistage", n, [{"ram": 0, "disk": s, "trajectory": "maximum"} for s in S])
        add("Mixed", n, [{"s": s, "storage": "DISK"} for s in S])
        add("TwoLevel", n, [{"period": 2, "b": s, "storage": "RAM", "trajectory": "maximum"} for s in S])
        add("HRevolve", n, [{"ram": s // 3, "disk": s - s // 3} for s in S if s // 3 >= 1 and s - s // 3 >= 1])
        add("DiskRevolve", n, [{"ram": s} for s in S if s >= 1])
        add("PeriodicDiskRevolve", n, [{"ram": s} for s in S if s >= 1])
        add("Revolve", n, [{"ram": s} for s in S if s >= 1])
        add("SingleDiskCopy", n, [{}])
        add("SingleDiskMove", n, [{}])
    return jobs




# ---------------------------------------------------------------------------
# per-property wording for MANIFEST.json

_SWEEP_NOTE = ("Trusted: z3; the proxy arithmetic of vcheck/symx.py (every path is re-run with plain values against "
               "the real code and the traces compared); the reference executor vcheck/monitor.py (also fed the "
               "suite's own grid). Costs are exact reals: IEEE rounding is outside; so are n beyond the bounds.")
_T_SWEEP = "bounded symbolic execution of the real Python code with z3 (symbolic real costs / unbounded unit counts, path-tree closure)"
LEVELS = {
    "C01": ("Every action of every stream in the bounds is executed by a reference executor under symbolic execution: for "
            "each structural tuple the solver partitions the whole 4-dimensional cost space (and the unbounded unit counts) "
            "into regions and closes the path tree, so executability holds for every cost vector, not for sampled ones.",
            _SWEEP_NOTE, _T_SWEEP),
    "C02": ("Phase automaton of the stream (one contiguous forward sweep, one EndForward, Reverse tiling n-1..0 in every "
            "pass, EndReverse exactly at step 0, StopIteration afterwards) required on every symbolic path of the sweep; "
            "for SingleMemory/None the number of steps itself is symbolic.", _SWEEP_NOTE, _T_SWEEP),
    "C03": ("Checkpoint counts per storage after every action against the class-wise budget table, with the budgets "
            "themselves symbolic where the constructor argument is (a path covers e.g. every ram >= n-1), and in every "
            "cost region for the Revolve family.", _SWEEP_NOTE, _T_SWEEP),
    "C04": ("Store contents at every EndReverse (empty for single-adjoint classes, equal to the EndForward contents for "
            "multi-pass classes, 2-3 passes) on every symbolic path of the sweep.", _SWEEP_NOTE, _T_SWEEP),
    "C05": ("Kernel lemma decided for a symbolic n up to 10^6: on each path n_advance is affine in n on a whole interval "
            "and the Bellman equality with the Griewank-Walther closed form is a validity query; plus forward-step totals "
            "of real Multistage/Revolve streams and the published helper against an independent recurrence.",
            "Trusted: GW2000 Prop. 1 (the closed form is the optimum over all schedules); z3. Bounded: s <= 12, n as stated.",
            "z3-backed symbolic execution of n_advance with symbolic n (Bellman lemma) + bounded stream sweep"),
    "C06": ("Forward-step total of every Mixed stream in the box and the planner's own Bellman equation against a "
            "first-principles recurrence; s is an unbounded symbolic integer.",
            "Trusted: Maddison (2024) (recurrence optimal over all schedules); z3. Bounded in n.",
            "bounded symbolic execution with z3 over (n, s), s unbounded"),
    "C07": ("For each structural tuple the cost of the real stream is a linear form in (uf, ub, wd, rd); equality with the "
            "independently transcribed optimum recurrences and the three relational claims are validity queries over the "
            "whole cost space, so positional mix-ups that cancel at uf=ub, wd=rd cannot hide.",
            "Trusted: the recurrences of Aupy et al. (2016) / Herrmann & Pallez (2020) are the optimum; z3 (QF_LRA). "
            "Exact real costs; n, ram, disk bounded as stated.",
            "z3 QF_LRA: symbolic execution of the real DP and sequence generators on symbolic real costs"),
    "C08": ("Observers n, r, max_n compared with the reference executor after every action and after finalize, all passes, "
            "every symbolic path of the sweep.", _SWEEP_NOTE, _T_SWEEP),
    "C09": ("Permitted number of passes per class, action-for-action equality and executability of repeated passes (3), "
            "is_exhausted / is_running after every action, persistence of StopIteration.", _SWEEP_NOTE, _T_SWEEP),
    "C10": ("Histories of next()/finalize(k) with every k an unbounded symbolic integer (TwoLevel: unbounded symbolic "
            "period): finalize is comparison-only, so each path covers an interval of k and the solver closes the tree over "
            "all integers; a twin object shows that rejected calls leave no trace.",
            "Trusted: oracles.fin_spec; z3. Bounded: history length 4/6, one small instance per offline class.",
            "z3-backed symbolic execution of call histories with unbounded integer arguments"),
    "C11": ("uses_storage_type queried for all four members before, after every action and after the stream (must not "
            "raise); storages touched by the stream must be reported, in every cost region.", _SWEEP_NOTE, _T_SWEEP),
    "C12": ("Working-storage discipline (one step of adjoint data, loads only into empty working storage, no overshoot) "
            "required by the reference executor on every symbolic path.", _SWEEP_NOTE, _T_SWEEP),
    "C13": ("Forward phase decided for every period and every binomial_snapshots (both unbounded symbolic, arguments "
            "affine in the period); per-block forward-step counts of real streams against the binomial closed form; "
            "n_advance kernel lemma with symbolic n.",
            "Trusted: GW2000; z3. Blocks bounded in n as stated.",
            "z3-backed symbolic execution: unbounded period lemma + bounded block sweep + symbolic-n kernel lemma"),
    "C14": ("All splits of s units built inside one path; labels-only equality, one storage per stack depth, RAM count, "
            "and minimum disk traffic recomputed from the stream's own access weights.",
            "Trusted: z3 (enumeration of (s, trajectory) and exhaustion). Bounded in n.",
            "bounded symbolic execution with z3 (solver-enumerated parameters)"),
    "C15": ("Solver-enumerated histories (two prior operations over an alphabet; every ordered same-family pair of a "
            "parameter box) followed by a target stream compared with a fresh-interpreter baseline. Discrete inputs: the "
            "solver certifies exhaustion of the box, little more.",
            "Trusted: z3 (exhaustion). Bounded: history length 2, instance lists; threads outside.",
            "z3-enumerated bounded history exploration of the real code vs fresh-interpreter baselines"),
    "C16": ("Table entries of mixed_steps_tabulation vs mixed_step_memoization and streams of both code paths, "
            "bounded-exhaustive box (proxies concretised at the numpy boundary).",
            "Trusted: z3. numba-compiled semantics outside (njit is the identity here); the tabulated branch is forced by "
            "rebinding mixed.numba.", "bounded symbolic execution with z3 (concretised at numpy)"),
    "C17": ("Parameter box around the domain boundary; constructor guards are comparisons so a path covers a range of "
            "values; valid tuples must complete, invalid ones must fail before any action.",
            "Trusted: the validity predicate transcribed from the statement; z3. (max_n=1, no RAM unit) for the Revolve "
            "family: either outcome accepted (documented in DESIGN.md section 6).",
            "bounded symbolic execution with z3 over a parameter box"),
    "C18": ("Equality/membership laws decided over all integers for directly constructed actions (all 36 kind pairs); "
            "repr/len/iter on a box around the special values; every emitted action of the sweep type-checked and "
            "repr-round-tripped in the concrete twin run.", _SWEEP_NOTE,
            "z3-backed symbolic execution (unbounded integer fields) + concrete twin checks on emitted actions"),
    "C19": ("The period loop runs on symbolic costs (ratio by cross-multiplication, QF_LRA): each path is an interval of "
            "(wd+rd)/uf on which the period must equal the Aupy-Herrmann closed form; for that region every n in the bound "
            "is generated and its disk write/read positions and per-segment step counts are checked.",
            "Trusted: Aupy & Herrmann (2017), GW2000; z3. Unwinding assumption on (wd+rd)/uf as stated.",
            "z3 QF_LRA symbolic execution of the period formula + bounded structural check per cost region"),
}
for _pid, (_t, _n, _tech) in LEVELS.items():
    PROPS[_pid]["level_text"] = _t + " Nothing is claimed outside the stated bounds."
    PROPS[_pid]["level_note"] = _n
    PROPS[_pid]["technique_short"] = _tech


# oracle self-checks (vcheck/brute.py): recurrences vs exhaustive search over all executable streams
PROPS["C05"]["selfcheck"] = ["binomial"]
PROPS["C13"]["selfcheck"] = ["binomial"]
PROPS["C19"]["selfcheck"] = ["binomial"]
PROPS["C06"]["selfcheck"] = ["mixed"]
PROPS["C07"]["selfcheck"] = ["hrevolve"]
for _pid in ("C05", "C06", "C07", "C13", "C19"):
    PROPS[_pid]["trusted"] = list(PROPS[_pid].get("trusted", [])) + [
        "for n <= 5 (quick) / 7 (thorough) the recurrences behind the oracle are compared at start-up with the optimum "
        "over all executable streams found by exhaustive search (vcheck/brute.py); beyond that the published theorems "
        "are trusted"]


# ---------------------------------------------------------------------------
# cost tables at large l against the oracle (cheap; catches pruned / truncated DP searches that
# only go wrong beyond the reach of the stream sweeps)
TABLE_VECTORS = [("1", "1", "2", "2"), ("3", "1", "1/2", "4"), ("1", "5", "3", "1/4"), ("2", "1", "0", "0"),
                 ("1", "1", "5", "7/2"), ("1", "2", "40", "25")]


def table_jobs(tier, kinds=("opt0", "optinf", "hopt")):
    q = tier == "quick"
    jobs = []
    if "opt0" in kinds:
        jobs.append(_job("tables", "opt0/l<=%d" % (140 if q else 320), {"kind": "opt0", "lmax": 140 if q else 320,
                                                                        "mmax": 8 if q else 10}, w=60, deadline=3000))
    if "optinf" in kinds:
        jobs.append(_job("tables", "optinf", {"kind": "optinf", "lmax": 90 if q else 160, "mmax": 6 if q else 7,
                                              "vectors": TABLE_VECTORS}, w=60, deadline=3000))
    if "hopt" in kinds:
        for c in ((2, 3), (4, 4)) if q else ((1, 4), (2, 3), (4, 4), (6, 5)):
            jobs.append(_job("tables", "hopt/c=%d,%d" % c, {"kind": "hopt", "lmax": 60 if q else 110, "mmax": list(c),
                                                            "vectors": TABLE_VECTORS}, w=60, deadline=3000))
    return jobs


_c07_jobs = PROPS["C07"]["jobs"]
PROPS["C07"]["jobs"] = lambda tier: _c07_jobs(tier) + table_jobs(tier)
_c05_jobs = PROPS["C05"]["jobs"]
PROPS["C05"]["jobs"] = lambda tier: _c05_jobs(tier) + table_jobs(tier, kinds=("opt0",))

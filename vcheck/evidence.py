"""Evidence writer: what this run actually covered."""
from __future__ import annotations

import json
import os

HERE = os.path.dirname(os.path.dirname(os.path.abspath(__file__)))


def write_evidence(prop, tier, seed, spec, results, wall, status, confirmed, known, vac, xcheck=None, selfchecks=None):
    paths = sum(d["paths"] for d in results)
    decisions = sum(d["stats"].get("decisions", 0) for d in results)
    validated = sum(d["validated"] for d in results)
    samples = []
    for d in results:
        for s in d["samples"][:1]:
            if len(samples) < 6:
                samples.append({"job": d["job"], **s})
    if not samples:
        samples = [{"job": d["job"], "params": d["params"]} for d in results[:3]]
    per_h = {}
    for d in results:
        h = per_h.setdefault(d["harness"], {"jobs": 0, "paths": 0, "paths_completed": 0,
                                            "paths_cut_by_assumption": 0, "paths_not_evaluable": 0,
                                            "forks": 0, "queries": 0, "solver_s": 0.0, "wall_s": 0.0,
                                            "exhaustive_jobs": 0, "counterexamples": 0})
        h["jobs"] += 1
        h["paths"] += d["paths"]
        h["paths_completed"] += d["paths_ok"]
        h["paths_cut_by_assumption"] += d.get("paths_assume", 0)
        h["paths_not_evaluable"] += d.get("paths_noteval", 0)
        h["forks"] += d["stats"].get("forks", 0)
        h["queries"] += d["stats"].get("queries", 0)
        h["solver_s"] = round(h["solver_s"] + d["stats"].get("solver_s", 0.0), 3)
        h["wall_s"] = round(h["wall_s"] + d["wall_s"], 2)
        h["exhaustive_jobs"] += 1 if d["exhaustive"] else 0
        h["counterexamples"] += d["failures_total"]
    functions = sorted({f for d in results for f in d["functions"]})
    covers = {}
    for d in results:
        for k, v in d["covers"].items():
            if not k.startswith("__"):
                covers[k] = covers.get(k, 0) + v
    noteval = {}
    for d in results:
        for k, v in d.get("noteval_reasons", {}).items():
            noteval[k] = noteval.get(k, 0) + v
    ev = {
        "property_id": prop, "tier": tier, "seed": seed, "level": "model_checking",
        "coverage": {
            "states": max(paths, 0),
            "transitions": max(decisions, 0),
            "traces_validated_against_impl": validated,
            "samples": samples,
            "evaluations": paths,
            "distinct_nontrivial": sum(d["nontrivial"] for d in results),
            "rule": "one evaluation = one closed path of the symbolic execution tree (a region of "
                    "the input space on which the real code takes one control-flow route); "
                    "non-trivial = the concrete twin run of the path loaded at least one "
                    "checkpoint (streams) or the path constrains the symbolic input to a proper "
                    "sub-range (lemmas); distinct = distinct concrete twin traces",
            "exhaustive": all(d["exhaustive"] for d in results) and status != "inconclusive",
            "technique": spec.get("technique", ""),
            "bounds": spec["bounds"](tier) if callable(spec.get("bounds")) else spec.get("bounds"),
            "outside_bounds": spec.get("outside", []),
            "trusted_base": spec.get("trusted", []),
            "stubs": spec.get("stubs", []),
            "functions_encoded": functions,
            "queries": sum(d["stats"].get("queries", 0) for d in results),
            "solver_s": round(sum(d["stats"].get("solver_s", 0.0) for d in results), 3),
            "implied_decisions": sum(d["stats"].get("implied", 0) for d in results),
            "forks": sum(d["stats"].get("forks", 0) for d in results),
            "per_harness": per_h,
            "covers": covers,
            "paths_not_evaluable": noteval,
            "float_twin": {"agree": sum(d.get("float_twin_agree", 0) for d in results),
                           "differ": sum(d.get("float_twin_differ", 0) for d in results),
                           "differ_samples": [x for d in results for x in d.get("float_differ_samples", [])][:3],
                           "note": "paths whose model point is exactly representable as floats were also run with "
                                   "float costs; informational, IEEE rounding is outside the claim"},
            "oracle_selfcheck": selfchecks or {},
            "vacuity": vac,
            "cross_checks": xcheck or {"note": "second engine / second solver run in the thorough tier only"},
            "jobs": len(results),
            "status": status,
            "known_findings_hit": sorted({f["id"] for f, _ in known}),
            "replays": [os.path.relpath(p, HERE) for p in confirmed],
            "inconclusive_jobs": [{"job": d["job"], "message": d["message"][:400]}
                                  for d in results if d["status"] != "ok"],
        },
        "assumptions": spec.get("assumptions", []),
        "wall_s": round(wall, 2),
        "violations": len(confirmed),
    }
    evid = os.environ.get("VERIF_EVIDENCE_DIR") or os.path.join(HERE, "evidence")
    os.makedirs(evid, exist_ok=True)
    with open(os.path.join(evid, prop + ".json"), "w") as f:
        json.dump(ev, f, indent=1, default=str)
    return ev

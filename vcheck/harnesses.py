"""Harness registry: name -> function(ctx, **params)."""
from __future__ import annotations


def get(name):
    twin = False
    if name.endswith("+twin"):
        name, twin = name[:-5], True
    if name == "stream":
        from .stream import stream_harness as fn
    elif name == "hist":
        from .hist import h_hist as fn
    elif name == "hist_pair":
        from .hist import h_hist_pair as fn
    elif name == "hist_long":
        from .hist import h_hist_long as fn
    else:
        from . import lemmas
        fn = getattr(lemmas, "h_" + name)
    if not twin:
        return fn

    def twin_fn(ctx, **params):
        r = fn(ctx, **params)
        # reachability witness: this must come back violated
        ctx.require(False, "VACUITY.reached_end", {"note": "reachability twin"})
        return r
    return twin_fn

"""symx -- re-execution symbolic execution of real Python code over z3.

The code under test is *not* translated.  It is called with proxy values
(`Sym` numbers, `SymBool` conditions); arithmetic builds linear forms over
solver atoms, `bool(SymBool)` asks the solver which sides of the branch are
feasible under the current path condition and forks.  Exploration is
depth-first by re-execution with a replayed decision prefix; the solver keeps
one scope per open decision.  A verdict "holds" rests on the closure of the
path tree: every side that was not explored has an `unsat` answer.

See /verif/DESIGN.md section 2.
"""
from __future__ import annotations

import math
import time
from fractions import Fraction as Fr

import z3

__all__ = ["Engine", "Sym", "SymBool", "Ratio", "HarnessError", "Inconclusive",
           "PathAbort", "ExactQ", "is_sym", "evalm", "SymCtx", "ConcreteCtx"]


class HarnessError(BaseException):
    """The harness / engine met something it cannot model soundly.
    (BaseException, like PathAbort: neither the code under test nor a harness's
    `except Exception` -- which records what the *library* raises -- may swallow it.)"""


class Inconclusive(BaseException):
    """Budget exhausted or solver answered unknown."""


class PathAbort(BaseException):
    """Ends the current path (BaseException: code under test must not catch)."""

    def __init__(self, kind, info=None):
        super().__init__(kind)
        self.kind = kind
        self.info = info


_E = None  # the engine running in this process


def _engine():
    if _E is None:
        raise HarnessError("symbolic value used outside an engine run")
    return _E


# ---------------------------------------------------------------------------
# numbers

def _num(x):
    """Concrete python number -> Fraction/int, or None if not a plain number.
    Infinite floats are returned as float."""
    if isinstance(x, bool):
        return int(x)
    if isinstance(x, int):
        return x
    if isinstance(x, Fr):
        return x
    if isinstance(x, float):
        if math.isinf(x):
            return x
        if math.isnan(x):
            raise HarnessError("NaN reached symbolic arithmetic")
        f = Fr(x)
        return f.numerator if f.denominator == 1 else f
    if isinstance(x, ExactQ):
        return x.q
    try:
        import numpy as np
        if isinstance(x, np.integer):
            return int(x)
        if isinstance(x, np.floating):
            return _num(float(x))
    except ImportError:  # pragma: no cover
        pass
    return None


class Sym:
    """A linear form  sum_i c_i * atom_i + c0  over solver atoms."""
    __slots__ = ("t", "c", "isint", "_pin")

    def __init__(self, t, c, isint):
        self.t = t          # dict atom_id -> coefficient (int/Fraction), no zeros
        self.c = c          # constant
        self.isint = isint
        self._pin = None

    # -- helpers -----------------------------------------------------------
    def _val(self):
        """Concrete value if pinned or constant, else None."""
        if self._pin is not None:
            return self._pin
        if not self.t:
            return self.c
        return None

    @staticmethod
    def _lift(x):
        """-> (terms, const, isint) or None; raises for infinities (handled by caller)."""
        if isinstance(x, Sym):
            v = x._val()
            if v is not None:
                return ({}, v, x.isint)
            return (x.t, x.c, x.isint)
        n = _num(x)
        if n is None:
            return None
        return ({}, n, isinstance(n, int))

    @staticmethod
    def _mk(t, c, isint):
        if not t:
            if isint:
                return int(c)
            return ExactQ(Fr(c)) if not isinstance(c, float) else c
        return Sym(t, c, isint)

    def _lin(self, other, sa, sb):
        """sa*self + sb*other"""
        o = Sym._lift(other)
        if o is None:
            return NotImplemented
        ot, oc, oi = o
        if isinstance(oc, float):  # +-inf
            return oc * sb
        st, sc, si = Sym._lift(self)
        t = {}
        for k, v in st.items():
            t[k] = v * sa
        for k, v in ot.items():
            nv = t.get(k, 0) + v * sb
            if nv == 0:
                t.pop(k, None)
            else:
                t[k] = nv
        return Sym._mk(t, sc * sa + oc * sb, si and oi)

    def __add__(self, o):
        return self._lin(o, 1, 1)

    __radd__ = __add__

    def __sub__(self, o):
        return self._lin(o, 1, -1)

    def __rsub__(self, o):
        return self._lin(o, -1, 1)

    def __neg__(self):
        return self._scale(-1)

    def __pos__(self):
        return self

    def _scale(self, k):
        st, sc, si = Sym._lift(self)
        if isinstance(k, float):  # inf
            raise HarnessError("symbolic value times infinity")
        if k == 0:
            return 0 if (si and isinstance(k, int)) else ExactQ(Fr(0))
        t = {a: v * k for a, v in st.items()}
        return Sym._mk(t, sc * k, si and isinstance(k, int))

    def __mul__(self, o):
        ol = Sym._lift(o)
        if ol is None:
            return NotImplemented
        ot, oc, oi = ol
        if not ot:
            return self._scale(oc)
        st, sc, si = Sym._lift(self)
        if not st:
            return o._scale(sc)
        # symbolic * symbolic: an opaque non-linear atom (NIA for integers -- used in bounded
        # lemmas --, NRA for reals: the solver may answer unknown, which is inconclusive)
        return _engine().opaque_mul(self, o, si and oi)

    __rmul__ = __mul__

    def __truediv__(self, o):
        ol = Sym._lift(o)
        if ol is None:
            return NotImplemented
        ot, oc, oi = ol
        if not ot:
            if isinstance(oc, float):
                return ExactQ(Fr(0))
            if oc == 0:
                raise ZeroDivisionError("division by zero")
            return self._as_real()._scale(Fr(1) / oc)
        return Ratio.make(self, o)

    def __rtruediv__(self, o):
        n = _num(o)
        if n is None:
            return NotImplemented
        v = self._val()
        if v is not None:
            return ExactQ(Fr(n) / Fr(v))
        return Ratio.make(n, self)

    def _as_real(self):
        st, sc, si = Sym._lift(self)
        return Sym(dict(st), sc, False) if st else ExactQ(Fr(sc))

    def __floordiv__(self, o):
        return _engine().int_divmod(self, o)[0]

    def __rfloordiv__(self, o):
        return _engine().int_divmod(o, self)[0]

    def __mod__(self, o):
        return _engine().int_divmod(self, o)[1]

    def __rmod__(self, o):
        return _engine().int_divmod(o, self)[1]

    def __divmod__(self, o):
        return _engine().int_divmod(self, o)

    def __abs__(self):
        return self if self >= 0 else -self

    def __pow__(self, k):
        if isinstance(k, int) and 0 <= k <= 4:
            r = 1
            for _ in range(k):
                r = r * self
            return r
        raise HarnessError("unsupported power of a symbolic value")

    # -- comparisons -------------------------------------------------------
    def _cmp(self, o, op, swap=False):
        """self (op) o ;  swap: o (op) self"""
        if isinstance(o, Ratio):
            return NotImplemented
        d = self._lin(o, -1, 1) if swap else self._lin(o, 1, -1)
        if d is NotImplemented:
            return NotImplemented
        if isinstance(d, float):         # an infinite operand
            return {"lt": d < 0, "le": d <= 0, "eq": False}[op]
        return SymBool.cmp(d, op)

    def __lt__(self, o):
        return self._cmp(o, "lt")

    def __le__(self, o):
        return self._cmp(o, "le")

    def __gt__(self, o):
        return self._cmp(o, "lt", swap=True)

    def __ge__(self, o):
        return self._cmp(o, "le", swap=True)

    def __eq__(self, o):
        r = self._cmp(o, "eq")
        return False if r is NotImplemented else r

    def __ne__(self, o):
        r = self._cmp(o, "eq")
        if r is NotImplemented:
            return True
        return (not r) if isinstance(r, bool) else r.neg()

    def __bool__(self):
        r = self != 0
        return bool(r)

    # -- conversions that need a machine value ----------------------------
    def _concretize(self):
        v = self._val()
        if v is not None:
            return v
        if not self.isint:
            raise HarnessError("a real-valued symbolic quantity (cost) reached a place "
                               "that needs a concrete value (index/hash/int)")
        v = _engine().concretize(self)
        self._pin = v
        return v

    def __index__(self):
        if not self.isint and self._val() is None:
            # what CPython says for a float in range(), indexing, [x]*n ...
            raise TypeError("'float' object cannot be interpreted as an integer")
        v = self._concretize()
        if not isinstance(v, int):
            raise TypeError("'float' object cannot be interpreted as an integer")
        return v

    def __int__(self):
        if not self.isint and self._val() is None:
            return int(self.__trunc__())
        return int(self._concretize())

    def __hash__(self):
        return hash(self._concretize())

    def __float__(self):
        return float(self._concretize())

    def __floor__(self):
        if self._val() is not None:
            return math.floor(self._val())
        if self.isint:
            return self
        return _engine().floor_lin(self)

    def __ceil__(self):
        if self._val() is not None:
            return math.ceil(self._val())
        if self.isint:
            return self
        return -_engine().floor_lin(-self)

    def __trunc__(self):
        if self._val() is not None:
            return math.trunc(self._val())
        if self.isint:
            return self
        return self.__floor__() if self >= 0 else self.__ceil__()

    def __round__(self, nd=None):
        if nd is not None:
            raise HarnessError("round(x, ndigits) of a symbolic value")
        if self._val() is not None:
            return round(self._val())
        if self.isint:
            return self
        return _round_half_even(self)

    def __repr__(self):
        v = self._val()
        if v is not None:
            return repr(v)
        return "<sym %s>" % _engine().lin_str(self.t, self.c)

    def __format__(self, spec):
        v = self._val()
        if v is not None:
            return format(v, spec)
        return repr(self)


def _round_half_even(x):
    """Python's round(): nearest integer, ties to the even one."""
    k = (x + Fr(1, 2)).__floor__()
    if x + Fr(1, 2) == k:          # exact tie
        if k % 2 != 0:
            return k - 1
    return k


def _negate(o):
    if isinstance(o, Sym):
        return -o
    n = _num(o)
    if n is None:
        return o
    return -n


def is_sym(x):
    return isinstance(x, (Sym, SymBool, Ratio))


class Ratio:
    """num/den with den proven positive on the path; only comparisons with
    numbers / linear forms (by cross multiplication with a constant)."""
    __slots__ = ("num", "den")

    def __init__(self, num, den):
        self.num = num
        self.den = den

    @staticmethod
    def make(num, den):
        if den > 0:
            return Ratio(num, den)
        if den < 0:
            return Ratio(-num, -den)
        raise ZeroDivisionError("division by zero")

    def _cross(self, o):
        n = _num(o)
        if n is None:
            if isinstance(o, Sym) and o._val() is not None:
                n = o._val()
            elif isinstance(o, Sym):
                return self.num, self.den * o       # non-linear product atom (NRA)
            elif isinstance(o, Ratio):
                return self.num * o.den, self.den * o.num
            else:
                raise HarnessError("ratio compared with %r" % type(o))
        if isinstance(n, float):
            return None, n
        return self.num, self.den * n

    def __lt__(self, o):
        a, b = self._cross(o)
        return (b > 0) if a is None else a < b

    def __le__(self, o):
        a, b = self._cross(o)
        return (b > 0) if a is None else a <= b

    def __gt__(self, o):
        a, b = self._cross(o)
        return (b < 0) if a is None else a > b

    def __ge__(self, o):
        a, b = self._cross(o)
        return (b < 0) if a is None else a >= b

    def __eq__(self, o):
        a, b = self._cross(o)
        return False if a is None else a == b

    def __ne__(self, o):
        a, b = self._cross(o)
        return True if a is None else a != b

    def __hash__(self):
        raise HarnessError("hash of a symbolic ratio")

    def _const(self, o):
        n = _num(o)
        if n is None and isinstance(o, Sym) and o._val() is not None:
            n = o._val()
        if n is None or isinstance(n, float):
            raise HarnessError("arithmetic on a symbolic ratio with a non-constant (non-linear)")
        return n

    def __add__(self, o):
        return Ratio(self.num + self.den * self._const(o), self.den)

    __radd__ = __add__

    def __sub__(self, o):
        return Ratio(self.num - self.den * self._const(o), self.den)

    def __rsub__(self, o):
        return Ratio(self.den * self._const(o) - self.num, self.den)

    def __neg__(self):
        return Ratio(-self.num, self.den)

    def __mul__(self, o):
        c = self._const(o)
        return Ratio(self.num * c, self.den)

    __rmul__ = __mul__

    def __truediv__(self, o):
        c = self._const(o)
        if c == 0:
            raise ZeroDivisionError("division by zero")
        return Ratio(self.num * (Fr(1) / c), self.den)

    def __floordiv__(self, o):
        return math.floor(self / o)

    def __floor__(self):
        return _engine().floor_ratio(self)

    def __ceil__(self):
        return -_engine().floor_ratio(-self)

    def __trunc__(self):
        return self.__floor__() if self >= 0 else self.__ceil__()

    def __int__(self):
        return int(self.__trunc__())

    def __round__(self, nd=None):
        if nd is not None:
            raise HarnessError("round(x, ndigits) of a symbolic value")
        return _round_half_even(self)

    def _unsupported(self, *a):
        raise HarnessError("a symbolic ratio reached a place that needs a concrete value")

    __rtruediv__ = __float__ = __index__ = _unsupported


# ---------------------------------------------------------------------------
# conditions

def _gcd_list(vals):
    g = 0
    for v in vals:
        g = math.gcd(g, abs(v))
    return g


class SymBool:
    __slots__ = ("kind", "a", "b", "key")

    def __init__(self, kind, a, b=None, key=None):
        self.kind = kind
        self.a = a
        self.b = b
        self.key = key if key is not None else self._mkkey()

    def _mkkey(self):
        if self.kind in ("le", "lt", "eq"):
            return (self.kind, self.a, self.b)
        if self.kind == "not":
            return ("not", self.a.key)
        return (self.kind, self.a.key, self.b.key)

    # a comparison  lin (op) 0 ; returns SymBool or bool
    @staticmethod
    def cmp(d, op):
        if not isinstance(d, Sym):
            q = d.q if isinstance(d, ExactQ) else d
            return {"lt": q < 0, "le": q <= 0, "eq": q == 0}[op]
        v = d._val()
        if v is not None:
            return {"lt": v < 0, "le": v <= 0, "eq": v == 0}[op]
        t, c = d.t, d.c
        # clear denominators, divide by gcd (positive scaling only)
        den = 1
        for x in t.values():
            if isinstance(x, Fr):
                den = den * x.denominator // math.gcd(den, x.denominator)
        coeffs = {a: int(x * den) for a, x in t.items()}
        g = _gcd_list(coeffs.values())
        c = Fr(c) * den / g
        for a in coeffs:
            coeffs[a] //= g
        if d.isint:
            # all atoms integer-valued: tighten the constant
            if op == "le":
                c = Fr(math.ceil(c))
            elif op == "lt":
                op = "le"
                c = Fr(math.floor(c) + 1)
            elif c.denominator != 1:
                return False
        if op == "eq":
            first = coeffs[min(coeffs)]
            if first < 0:
                coeffs = {a: -x for a, x in coeffs.items()}
                c = -c
        items = tuple(sorted(coeffs.items()))
        c = c.numerator if c.denominator == 1 else c
        return SymBool(op, items, c)

    def neg(self):
        k = self.kind
        if k == "le":      # l <= 0  ->  -l < 0
            return SymBool.cmp(_engine().from_items(self.a, self.b)._scale(-1), "lt")
        if k == "lt":
            return SymBool.cmp(_engine().from_items(self.a, self.b)._scale(-1), "le")
        if k == "not":
            return self.a
        return SymBool("not", self)

    def __bool__(self):
        return _engine().decide(self)

    def __invert__(self):
        return self.neg()

    def __and__(self, o):
        if isinstance(o, SymBool):
            return SymBool("and", self, o)
        return self if o else False

    __rand__ = __and__

    def __or__(self, o):
        if isinstance(o, SymBool):
            return SymBool("or", self, o)
        return True if o else self

    __ror__ = __or__

    def __eq__(self, o):
        if isinstance(o, SymBool):
            return (self & o) | (self.neg() & o.neg())
        if isinstance(o, bool):
            return self if o else self.neg()
        return NotImplemented

    def __hash__(self):
        return hash(bool(self))

    def __repr__(self):
        return "<symbool %s>" % (self.key,)

    # evaluation under a Model
    def eval(self, m):
        k = self.kind
        if k in ("le", "lt", "eq"):
            s = self.b
            for a, x in self.a:
                s = s + x * m.val(a)
            return s <= 0 if k == "le" else (s < 0 if k == "lt" else s == 0)
        if k == "not":
            return not self.a.eval(m)
        if k == "and":
            return self.a.eval(m) and self.b.eval(m)
        return self.a.eval(m) or self.b.eval(m)

    def z3(self, E):
        k = self.kind
        if k in ("le", "lt", "eq"):
            term = E.z3_lin(self.a, self.b)
            zero = 0
            return term <= zero if k == "le" else (term < zero if k == "lt" else term == zero)
        if k == "not":
            return z3.Not(self.a.z3(E))
        if k == "and":
            return z3.And(self.a.z3(E), self.b.z3(E))
        return z3.Or(self.a.z3(E), self.b.z3(E))


def sym_and(*xs):
    """Non-forking conjunction."""
    r = True
    for x in xs:
        if isinstance(x, SymBool):
            r = x if r is True else (r & x)
        elif not x:
            return False
    return r


def sym_or(*xs):
    r = False
    for x in xs:
        if isinstance(x, SymBool):
            r = x if r is False else (r | x)
        elif x:
            return True
    return r


def sym_not(x):
    return x.neg() if isinstance(x, SymBool) else (not x)


def sym_implies(a, b):
    return sym_or(sym_not(a), b)


# ---------------------------------------------------------------------------
# exact rational used for the concrete twin runs

class ExactQ:
    """Exact rational that absorbs ints and finite floats exactly and lets
    +-inf floats win, so that the real code computes in exact arithmetic."""
    __slots__ = ("q",)

    def __init__(self, q):
        self.q = q if isinstance(q, Fr) else Fr(q)

    @staticmethod
    def _o(x):
        if isinstance(x, ExactQ):
            return x.q
        if isinstance(x, bool):
            return Fr(int(x))
        if isinstance(x, (int, Fr)):
            return Fr(x)
        if isinstance(x, float):
            if math.isinf(x):
                return x
            return Fr(x)
        n = _num(x)
        if n is None:
            return None
        return n if isinstance(n, float) else Fr(n)

    def _bin(self, o, f, rf=None):
        v = ExactQ._o(o)
        if v is None:
            return NotImplemented
        if isinstance(v, float):
            return f(float(self.q), v)
        return ExactQ(f(self.q, v))

    def __add__(self, o):
        return self._bin(o, lambda a, b: a + b)

    __radd__ = __add__

    def __sub__(self, o):
        return self._bin(o, lambda a, b: a - b)

    def __rsub__(self, o):
        return self._bin(o, lambda a, b: b - a)

    def __mul__(self, o):
        return self._bin(o, lambda a, b: a * b)

    __rmul__ = __mul__

    def __truediv__(self, o):
        return self._bin(o, lambda a, b: a / b)

    def __rtruediv__(self, o):
        return self._bin(o, lambda a, b: b / a)

    def __floordiv__(self, o):
        if isinstance(o, (Sym, Ratio)):
            return NotImplemented
        return self._bin(o, lambda a, b: a // b)

    def __rfloordiv__(self, o):
        return self._bin(o, lambda a, b: b // a)

    def __mod__(self, o):
        if isinstance(o, (Sym, Ratio)):
            return NotImplemented
        return self._bin(o, lambda a, b: a % b)

    def __rmod__(self, o):
        return self._bin(o, lambda a, b: b % a)

    def __divmod__(self, o):
        return self // o, self % o

    def __neg__(self):
        return ExactQ(-self.q)

    def __pos__(self):
        return self

    def __abs__(self):
        return ExactQ(abs(self.q))

    def _c(self, o, f):
        v = ExactQ._o(o)
        if v is None:
            return NotImplemented
        return f(self.q, v)

    def __lt__(self, o):
        return self._c(o, lambda a, b: a < b)

    def __le__(self, o):
        return self._c(o, lambda a, b: a <= b)

    def __gt__(self, o):
        return self._c(o, lambda a, b: a > b)

    def __ge__(self, o):
        return self._c(o, lambda a, b: a >= b)

    def __eq__(self, o):
        if isinstance(o, (Sym, Ratio)):
            return NotImplemented          # let the proxy build the condition
        r = self._c(o, lambda a, b: a == b)
        return False if r is NotImplemented else r

    def __ne__(self, o):
        if isinstance(o, (Sym, Ratio)):
            return NotImplemented
        return not self.__eq__(o)

    def __hash__(self):
        return hash(self.q)

    def __bool__(self):
        return self.q != 0

    def __float__(self):
        return float(self.q)

    def __int__(self):
        return int(self.q)

    def __floor__(self):
        return math.floor(self.q)

    def __ceil__(self):
        return math.ceil(self.q)

    def __trunc__(self):
        return math.trunc(self.q)

    def __round__(self, nd=None):
        return round(self.q) if nd is None else ExactQ(round(self.q, nd))

    def __repr__(self):
        return "Q(%s)" % self.q


# ---------------------------------------------------------------------------
# models

class Model:
    __slots__ = ("m", "vals", "E")

    def __init__(self, E, m):
        self.E = E
        self.m = m
        self.vals = {}

    def val(self, atom):
        v = self.vals.get(atom)
        if v is None:
            term = self.E.atoms[atom][1]
            r = self.m.eval(term, model_completion=True)
            if z3.is_int_value(r):
                v = r.as_long()
            elif z3.is_rational_value(r):
                v = Fr(r.numerator_as_long(), r.denominator_as_long())
                if v.denominator == 1:
                    v = v.numerator
            else:
                raise HarnessError("non-numeral model value %r for %r" % (r, term))
            self.vals[atom] = v
        return v

    def lin(self, t, c):
        s = c
        for a, x in t.items():
            s = s + x * self.val(a)
        return s


def evalm(x, m):
    """Evaluate a (nested) trace item under model m to plain python values."""
    if isinstance(x, Sym):
        v = x._val()
        if v is None:
            v = m.lin(x.t, x.c)
        if isinstance(v, Fr) and v.denominator == 1:
            v = v.numerator
        return v
    if isinstance(x, SymBool):
        return x.eval(m)
    if isinstance(x, Ratio):
        return Fr(evalm(x.num, m)) / Fr(evalm(x.den, m))
    if isinstance(x, ExactQ):
        v = x.q
        return v.numerator if v.denominator == 1 else v
    if isinstance(x, float) and not math.isinf(x) and x == int(x):
        return int(x)
    if isinstance(x, (tuple, list)):
        return tuple(evalm(y, m) for y in x)
    if isinstance(x, dict):
        return {k: evalm(v, m) for k, v in x.items()}
    return x


def plain(x):
    """Normalise concrete trace items the same way evalm does."""
    if isinstance(x, ExactQ):
        v = x.q
        return v.numerator if v.denominator == 1 else v
    if isinstance(x, Fr):
        return x.numerator if x.denominator == 1 else x
    if isinstance(x, bool) or x is None:
        return x
    if isinstance(x, float) and not math.isinf(x):
        f = Fr(x)
        return f.numerator if f.denominator == 1 else f
    if isinstance(x, (tuple, list)):
        return tuple(plain(y) for y in x)
    if isinstance(x, dict):
        return {k: plain(v) for k, v in x.items()}
    n = _num(x) if not isinstance(x, (str, bytes)) else None
    if n is not None and not isinstance(x, int):
        return plain(n)
    return x


# ---------------------------------------------------------------------------
# engine

class _Dec:
    __slots__ = ("key", "value", "lvl", "alt", "payload", "models")

    def __init__(self, key, value, lvl, alt, payload=None):
        self.key = key
        self.value = value
        self.lvl = lvl        # solver scope depth before this decision
        self.alt = alt        # None or (SymBool of the *other* side, models) still to explore
        self.payload = payload


class Engine:
    def __init__(self, deadline_s=600.0, solver_timeout_ms=120000, max_paths=None):
        self.solver = z3.Solver()
        self.solver.set("timeout", solver_timeout_ms)
        self.atoms = []          # id -> (name, z3 term, isint)
        self.atom_by_name = {}
        self.z3_cache = {}
        self.trail = []
        self.pos = 0
        self.models = []
        self.known = {}
        self.level = 0
        self.deadline = time.time() + deadline_s
        self.max_paths = max_paths
        self.stats = dict(paths=0, decisions=0, forks=0, queries=0, solver_s=0.0,
                          implied=0, cache_hits=0, concretizations=0)
        self.var_names = []      # declared variables in order (name, isint)
        self.query_log = None    # optional list of smt2 strings (cross-solver check)

    # -- atoms ------------------------------------------------------------
    def _atom(self, name, term, isint):
        i = self.atom_by_name.get(name)
        if i is None:
            i = len(self.atoms)
            self.atoms.append((name, term, isint))
            self.atom_by_name[name] = i
        return i

    def var(self, name, isint):
        if name not in self.atom_by_name:
            self.var_names.append((name, isint))
        term = z3.Int(name) if isint else z3.Real(name)
        i = self._atom(name, term, isint)
        return Sym({i: 1}, 0, isint)

    def from_items(self, items, c):
        isint = all(self.atoms[a][2] for a, _ in items) and isinstance(c, int) \
            and all(isinstance(x, int) for _, x in items)
        return Sym(dict(items), c, isint)

    def z3_of(self, x):
        """z3 term of a Sym / number."""
        if isinstance(x, Sym):
            v = x._val()
            if v is None:
                return self.z3_lin(tuple(sorted(x.t.items())), x.c)
            x = v
        if isinstance(x, int):
            return z3.IntVal(x)
        return z3.RealVal(str(Fr(x)))

    def z3_lin(self, items, c):
        key = (items, c)
        r = self.z3_cache.get(key)
        if r is not None:
            return r
        allint = all(self.atoms[a][2] for a, _ in items) and isinstance(c, int) \
            and all(isinstance(x, int) for _, x in items)
        parts = []
        for a, x in items:
            term = self.atoms[a][1]
            if not allint and self.atoms[a][2]:
                term = z3.ToReal(term)
            if x == 1:
                parts.append(term)
            elif allint:
                parts.append(z3.IntVal(x) * term)
            else:
                parts.append(z3.RealVal(str(Fr(x))) * term)
        if c != 0 or not parts:
            parts.append(z3.IntVal(c) if allint else z3.RealVal(str(Fr(c))))
        r = parts[0] if len(parts) == 1 else z3.Sum(parts)
        self.z3_cache[key] = r
        return r

    def lin_str(self, t, c):
        s = " + ".join("%s*%s" % (x, self.atoms[a][0]) for a, x in sorted(t.items()))
        return "%s + %s" % (s, c)

    def opaque_mul(self, a, b, isint):
        ta, tb = self.z3_of(a), self.z3_of(b)
        if not isint:
            if ta.is_int():
                ta = z3.ToReal(ta)
            if tb.is_int():
                tb = z3.ToReal(tb)
        term = ta * tb
        i = self._atom(term.sexpr(), term, isint)
        return Sym({i: 1}, 0, isint)

    def int_divmod(self, a, b):
        la, lb = Sym._lift(a), Sym._lift(b)
        if la is None or lb is None:
            raise HarnessError("divmod with a non-number")
        if not (la[2] and lb[2]):
            # real operands: python's  a // b == floor(a / b)  and  a % b == a - b*(a // b)
            # (exact arithmetic; a float-exact counterexample must reproduce with floats)
            if not lb[0] and lb[1] == 0:
                raise ZeroDivisionError("float floor division by zero")
            q = math.floor(a / b)
            return q, a - q * b
        if not la[0] and not lb[0]:
            return divmod(la[1], lb[1])
        if not lb[0]:
            k = lb[1]
            if k == 0:
                raise ZeroDivisionError("integer division or modulo by zero")
            ta = self.z3_of(a if isinstance(a, Sym) else la[1])
            if k > 0:
                q = ta / z3.IntVal(k)
            else:
                q = (-ta) / z3.IntVal(-k)
            qi = self._atom(q.sexpr(), q, True)
            qs = Sym({qi: 1}, 0, True)
            return qs, a - qs * k
        # symbolic divisor: fork on its sign so z3's euclidean div matches python
        if b == 0:
            raise ZeroDivisionError("integer division or modulo by zero")
        ta = self.z3_of(a if isinstance(a, Sym) else la[1])
        tb = self.z3_of(b)
        if b > 0:
            q = ta / tb
        else:
            q = (-ta) / (-tb)
        qi = self._atom(q.sexpr(), q, True)
        qs = Sym({qi: 1}, 0, True)
        return qs, a - qs * b

    def floor_lin(self, x):
        """floor of a symbolic real linear form: an integer atom ToInt(x)."""
        term = z3.ToInt(self.z3_of(x))
        i = self._atom(term.sexpr(), term, True)
        return Sym({i: 1}, 0, True)

    def floor_ratio(self, r, limit=200):
        """floor(num/den), den > 0 on the path, by solver-driven enumeration:
        pick the value under a model, fork on  v*den <= num < (v+1)*den."""
        for _ in range(limit):
            if self.pos < len(self.trail):
                v = self.trail[self.pos].payload
                if v is None:
                    raise HarnessError("non-deterministic re-execution (floor of a ratio)")
            else:
                m = self.models[0]
                v = math.floor(Fr(evalm(r.num, m)) / Fr(evalm(r.den, m)))
            lo = r.num - r.den * v
            b = sym_and(lo >= 0, lo - r.den < 0)
            if isinstance(b, bool):
                if b:
                    return v
                continue
            if self._decide_payload(b, v):
                return v
        raise Inconclusive("floor of a symbolic ratio takes more than %d values on one path" % limit)

    # -- solver -----------------------------------------------------------
    def _check(self, extra):
        """Is  pc /\\ extra  satisfiable?  Returns Model or None."""
        if time.time() > self.deadline:
            raise Inconclusive("time budget exhausted")
        s = self.solver
        s.push()
        s.add(extra.z3(self) if isinstance(extra, SymBool) else extra)
        log = None
        if self.query_log is not None and len(self.query_log) < 6 and \
                self.stats["queries"] % 193 == 7:
            log = s.to_smt2()
        t0 = time.time()
        r = s.check()
        if log is not None and r in (z3.sat, z3.unsat):
            self.query_log.append((log, str(r)))
        self.stats["solver_s"] += time.time() - t0
        self.stats["queries"] += 1
        m = None
        if r == z3.sat:
            m = Model(self, s.model())
        elif r != z3.unsat:
            s.pop()
            raise Inconclusive("solver answered %s (%s)" % (r, s.reason_unknown()))
        s.pop()
        return m

    def decide(self, b, mode="branch", on_other=None):
        """Value of condition b on this path.
        mode 'branch' : fork when both sides are feasible;
        mode 'assume' : only the True side is followed (PathAbort if infeasible);
        mode 'require': like assume, but a feasible False side is reported to
                        on_other(model) first -- it is a violation candidate."""
        key = b.key
        if key in self.known:
            self.stats["cache_hits"] += 1
            v = self.known[key]
            if mode == "branch" or v:
                return v
            if mode == "require":
                on_other(self.models[0])
                raise PathAbort("violation-only")
            raise PathAbort("assume")
        self.stats["decisions"] += 1
        if self.pos < len(self.trail):                       # replayed prefix
            d = self.trail[self.pos]
            if d.key != key:
                raise HarnessError("non-deterministic re-execution: expected %r, got %r"
                                   % (d.key, key))
            self.pos += 1
            self.known[key] = d.value
            if self.pos == len(self.trail):
                self.models = d.models[:4]
            return d.value
        mt, mf = [], []
        for m in self.models:
            (mt if b.eval(m) else mf).append(m)
        if not mt:
            m = self._check(b)
            if m is not None:
                mt.append(m)
        if not mf:
            m = self._check(b.neg())
            if m is not None:
                mf.append(m)
        if mode != "branch":
            if mf and mode == "require":
                on_other(mf[0])
            if not mt:
                raise PathAbort("violation-only" if mode == "require" else "assume")
            self._push_dec(b, True, mt, None, scoped=bool(mf))
            return True
        if mt and mf:
            self.stats["forks"] += 1
            first_true = b.eval(self.models[0])      # keep the first model stable
            if first_true:
                self._push_dec(b, True, mt, (b, mf))
            else:
                self._push_dec(b, False, mf, (b, mt))
            return first_true
        if not mt and not mf:
            raise HarnessError("path condition became unsatisfiable")
        self.stats["implied"] += 1
        v = bool(mt)
        self._push_dec(b, v, mt or mf, None, scoped=False)
        return v

    def _push_dec(self, b, value, models, alt, scoped=True, payload=None):
        lvl = self.level
        if scoped:
            self.solver.push()
            self.solver.add((b if value else b.neg()).z3(self))
            self.level += 1
        d = _Dec(b.key, value, lvl, alt, payload)
        d.models = models
        self.trail.append(d)
        self.pos += 1
        self.models = models[:4]
        self.known[b.key] = value

    def concretize(self, sym):
        """Pick a feasible integer value v for sym, fork on sym == v."""
        self.stats["concretizations"] += 1
        while True:
            if self.pos < len(self.trail):
                v = self.trail[self.pos].payload
                if v is None:
                    raise HarnessError("non-deterministic re-execution (concretisation)")
            else:
                v = self.models[0].lin(sym.t, sym.c)
                if isinstance(v, Fr):
                    if v.denominator != 1:
                        raise HarnessError("integer term with fractional model value")
                    v = v.numerator
            b = SymBool.cmp(sym - v, "eq")
            if isinstance(b, bool):
                if b:
                    return v
                raise HarnessError("concretisation picked an impossible value")
            if self._decide_payload(b, v):
                return v

    def _decide_payload(self, b, v):
        key = b.key
        if key in self.known:
            return self.known[key]
        n = len(self.trail)
        fresh = self.pos >= n
        r = self.decide(b)
        if fresh:
            self.trail[n].payload = v
        return r

    # -- exploration -------------------------------------------------------
    def begin_path(self):
        global _E
        _E = self
        self.pos = 0
        self.known = {}
        if not self.trail:
            self.models = []
            m = self._check(z3.BoolVal(True))
            self.models = [m]
        # else: models are restored when the replay reaches the end of the trail

    def backtrack(self):
        """Prepare the next path.  False when the tree is closed."""
        while self.trail:
            d = self.trail[-1]
            if d.alt is None:
                self.trail.pop()
                continue
            b, models = d.alt
            while self.level > d.lvl:
                self.solver.pop()
                self.level -= 1
            d.value = not d.value
            d.alt = None
            self.solver.push()
            self.solver.add((b if d.value else b.neg()).z3(self))
            self.level += 1
            d.models = models
            return True
        while self.level > 0:
            self.solver.pop()
            self.level -= 1
        return False

    def path_model(self):
        return self.models[0]

    def assignment(self, m):
        """Declared variables -> value under model m."""
        out = {}
        for name, isint in self.var_names:
            out[name] = m.val(self.atom_by_name[name])
        return out

    def has_reals(self):
        return any(not isint for _, isint in self.var_names)

    def grid_model(self, extra, denom=64):
        """A model of pc /\\ extra whose real variables lie on the grid k/denom."""
        cons = [extra.z3(self) if isinstance(extra, SymBool) else extra]
        for name, isint in self.var_names:
            if not isint:
                k = z3.Int("__grid_" + name)
                cons.append(z3.Real(name) * denom == z3.ToReal(k))
        try:
            return self._check(z3.And(cons))
        except Inconclusive:
            return None


# ---------------------------------------------------------------------------
# harness contexts

class SymCtx:
    """What a harness sees while running symbolically."""
    symbolic = True

    def __init__(self, E, fatal=None):
        self.E = E
        self.trace_items = []
        self.failures = []       # (tag, info, Model)
        self.covers = {}
        self.fatal = fatal       # predicate on tags or None (all)
        self.soft_failed = set()

    def int(self, name, lo=None, hi=None, eager=False):
        x = self.E.var(name, True)
        if lo is not None:
            self.assume(x >= lo)
        if hi is not None:
            self.assume(x <= hi)
        if eager:
            return int(x)
        return x

    def real(self, name, lo=None, strict=True):
        x = self.E.var(name, False)
        if lo is not None:
            self.assume(x > lo if strict else x >= lo)
        return x

    def choice(self, name, options):
        i = self.int(name, 0, len(options) - 1, eager=True)
        return options[i]

    def bool(self, name):
        return self.choice(name, [False, True])

    def assume(self, cond):
        if isinstance(cond, SymBool):
            self.E.decide(cond, mode="assume")
        elif not cond:
            raise PathAbort("assume")

    def is_fatal(self, tag):
        return self.fatal is None or self.fatal(tag)

    def require(self, cond, tag, info=None, soft=False):
        """cond must be valid under the path condition.  A counterexample model
        is recorded; the path goes on under the assumption that cond holds.
        A concretely false cond ends the path unless soft=True (the state of the
        caller stays meaningful): then it is recorded once per tag and path."""
        if not self.is_fatal(tag):
            # not this check's business: skip, unless the caller cannot go on
            if soft:
                return
            if cond:
                return
            raise PathAbort("noteval", tag)
        if isinstance(cond, SymBool):
            def hit(m):
                g = self.E.grid_model(cond.neg()) if self.E.has_reals() else None
                m2 = g or m
                i = info() if callable(info) else info
                self.failures.append((tag, evalm(i, m2), self.E.assignment(m2)))
            self.E.decide(cond, mode="require", on_other=hit)
        elif not cond:
            if soft and tag in self.soft_failed:
                return
            i = info() if callable(info) else info
            m = self.E.models[0]
            self.failures.append((tag, evalm(i, m), self.E.assignment(m)))
            if not soft:
                raise PathAbort("violation")
            self.soft_failed.add(tag)

    def fail(self, tag, info=None):
        self.require(False, tag, info)

    def trace(self, item):
        self.trace_items.append(item)

    def cover(self, label, k=1):
        self.covers[label] = self.covers.get(label, 0) + k

    def concrete(self, x):
        if isinstance(x, Sym):
            return x._concretize()
        if isinstance(x, SymBool):
            return bool(x)
        return x

    def not_evaluable(self, why):
        raise PathAbort("noteval", why)


class ConcreteCtx:
    """The same harness run with ordinary python values."""
    symbolic = False

    def __init__(self, assignment, fatal=None, real_as="exact"):
        self.a = assignment
        self.trace_items = []
        self.failures = []
        self.covers = {}
        self.fatal = fatal
        self.real_as = real_as
        self.soft_failed = set()

    def int(self, name, lo=None, hi=None, eager=False):
        v = int(self.a[name])
        if (lo is not None and v < lo) or (hi is not None and v > hi):
            raise PathAbort("assume")
        return v

    def real(self, name, lo=None, strict=True):
        v = Fr(self.a[name])
        if lo is not None and (v <= lo if strict else v < lo):
            raise PathAbort("assume")
        if self.real_as == "float":
            return float(v)
        return ExactQ(v)

    def choice(self, name, options):
        return options[self.int(name, 0, len(options) - 1)]

    def bool(self, name):
        return self.choice(name, [False, True])

    def assume(self, cond):
        if not cond:
            raise PathAbort("assume")

    def is_fatal(self, tag):
        return self.fatal is None or self.fatal(tag)

    def require(self, cond, tag, info=None, soft=False):
        if not self.is_fatal(tag):
            if soft or cond:
                return
            raise PathAbort("noteval", tag)
        if not cond:
            if soft and tag in self.soft_failed:
                return
            self.failures.append((tag, info() if callable(info) else info))
            if not soft:
                raise PathAbort("violation")
            self.soft_failed.add(tag)

    def fail(self, tag, info=None):
        self.require(False, tag, info)

    def trace(self, item):
        self.trace_items.append(item)

    def cover(self, label, k=1):
        self.covers[label] = self.covers.get(label, 0) + k

    def concrete(self, x):
        return x

    def not_evaluable(self, why):
        raise PathAbort("noteval", why)

"""Independent reference models (DESIGN.md 3.2).  None of this imports or calls
checkpoint_schedules.  Everything works on plain numbers and on symx proxies
(then `min`/comparisons fork, or are answered from the path condition)."""
from __future__ import annotations

from math import comb

INF = float("inf")


# ---------------------------------------------------------------------------
# binomial checkpointing (Griewank & Walther 2000)

_T = {}


def T_bin(n, s):
    """Minimal number of forward steps (including the n 'taping' steps) to
    reverse n steps with s restart checkpoints, first principles recurrence:
    store a checkpoint at the start, advance i, solve the rest with s-1, come
    back and solve the first i steps re-using the checkpoint."""
    if n == 1:
        return 1
    if s <= 0:
        return INF
    s = min(s, n - 1)
    k = (n, s)
    r = _T.get(k)
    if r is None:
        r = min(i + T_bin(n - i, s - 1) + T_bin(i, s) for i in range(1, n))
        _T[k] = r
    return r


def E_bin_rec(n, s):
    return T_bin(n, s) - n


def E_bin(n, s):
    """Closed form of the minimal number of *extra* forward steps
    (GW2000 Prop. 1):  t*n - C(s+t, t-1)  with  C(s+t-1, s) < n <= C(s+t, s).
    n may be a symbolic integer; s must then be concrete unless s >= n-1."""
    if n == 1:
        return 0
    if s >= n - 1:
        return n - 1
    # here s < n-1 and s is concrete
    s = int(s)
    if s < 1:
        return INF
    if s == 1 and isinstance(n, int):
        return n * (n - 1) // 2            # level t = n-1: t*n - C(t+1, t-1)
    t = 1
    while not (n <= comb(s + t, s)):
        t += 1
        if t > 10 ** 7:
            raise RuntimeError("E_bin: level search does not terminate")
    return t * n - comb(s + t, t - 1)


# ---------------------------------------------------------------------------
# mixed checkpointing (Maddison 2024, section 3), first principles recurrence

_M = {}


def E_mix(n, s):
    """Minimal total forward steps when each of s units holds either a restart
    checkpoint or one step of adjoint dependencies."""
    if n == 1:
        return 1
    if s <= 0:
        return INF
    s = min(s, n - 1)
    k = (n, s)
    r = _M.get(k)
    if r is None:
        # store adjoint dependencies of the first step in a unit
        r = 1 + E_mix(n - 1, s - 1)
        # or store a restart checkpoint, advance i steps, come back
        for i in range(1, n):
            r = min(r, i + E_mix(n - i, s - 1) + E_mix(i, s))
        _M[k] = r
    return r


# ---------------------------------------------------------------------------
# Revolve / Disk-Revolve / H-Revolve cost recurrences (Aupy et al. 2016,
# Herrmann & Pallez 2020).  l = number of forward steps of the adjoint graph
# (= max_n - 1), cost model of the papers: (l+1) backward steps at ub each.

class CostTables:
    def __init__(self, uf, ub, wd=0, rd=0):
        self.uf, self.ub, self.wd, self.rd = uf, ub, wd, rd
        self._o0 = {}
        self._oinf = {}
        self._h = {}
        self._hp = {}

    def opt0(self, l, m):
        """Memory only, m slots."""
        uf, ub = self.uf, self.ub
        if l == 0:
            return ub
        if m <= 0:
            return INF
        if l == 1:
            return uf + 2 * ub
        k = (l, m)
        r = self._o0.get(k)
        if r is None:
            if m == 1:
                r = (l + 1) * ub + (l * (l + 1) // 2) * uf
            else:
                r = min(j * uf + self.opt0(l - j, m - 1) + self.opt0(j - 1, m)
                        for j in range(1, l))
            self._o0[k] = r
        return r

    def optinf(self, l, cm):
        """Disk-Revolve, unbounded disk, each disk checkpoint read once."""
        uf, ub, wd, rd = self.uf, self.ub, self.wd, self.rd
        if l == 0:
            return ub
        if l == 1:
            return uf + 2 * ub if cm > 0 else wd + uf + 2 * ub + rd
        k = (l, cm)
        r = self._oinf.get(k)
        if r is None:
            r = self.opt0(l, cm)
            for j in range(1, l):
                r = min(r, wd + j * uf + self.optinf(l - j, cm) + rd + self.opt0(j - 1, cm))
            self._oinf[k] = r
        return r

    # H-Revolve with two levels: level 0 = RAM (c0 slots, free), level 1 = disk
    def hopt(self, k, l, m, c0):
        """Opt_k(l, m): levels 0..k, level k has m slots (levels below full)."""
        uf, ub = self.uf, self.ub
        w = (0, self.wd)[k]
        if l == 0:
            return ub
        if k == 0:
            if m <= 0:
                return INF
            return w + self.hoptp(0, l, m, c0)
        if m == 0:
            return self.hopt(k - 1, l, c0, c0)
        key = (k, l, m, c0)
        r = self._h.get(key)
        if r is None:
            r = min(self.hopt(k - 1, l, c0, c0), w + self.hoptp(k, l, m, c0))
            self._h[key] = r
        return r

    def hoptp(self, k, l, m, c0):
        """Opt'_k(l, m): the input is already stored in level k."""
        uf, ub = self.uf, self.ub
        r_k = (0, self.rd)[k]
        if l == 0:
            return ub
        key = (k, l, m, c0)
        r = self._hp.get(key)
        if r is not None:
            return r
        if k == 0:
            if m <= 0:
                r = INF
            elif l == 1:
                r = uf + 2 * ub + r_k
            else:
                r = (l + 1) * ub + (l * (l + 1) // 2) * uf + l * r_k
                if m >= 2:
                    for j in range(1, l):
                        r = min(r, j * uf + self.hopt(0, l - j, m - 1, c0) + r_k
                                + self.hoptp(0, j - 1, m, c0))
        else:
            if m <= 0:
                r = INF
            else:
                r = self.hopt(k - 1, l, c0, c0)
                for j in range(1, l):
                    r = min(r, j * uf + self.hopt(k, l - j, m - 1, c0) + r_k
                            + self.hoptp(k, j - 1, m, c0))
        self._hp[key] = r
        return r


# ---------------------------------------------------------------------------
# period of Aupy & Herrmann (2017)

def m_AH(cm, uf, wd, rd, tmax=64):
    """C(cm + t*, t*) with t* = min{t : C(cm+1+t, t) > (wd+rd)/uf}.
    Returns (m, t*) or (None, None) when t* > tmax (unwinding bound)."""
    t = 0
    while not (comb(cm + 1 + t, t) * uf > wd + rd):
        t += 1
        if t > tmax:
            return None, None
    return comb(cm + t, t), t


# ---------------------------------------------------------------------------
# finalize specification (C10)

def fin_spec(told_to, max_n, k):
    """-> (outcome, new_max_n, new_n) for schedule state (n=told_to, max_n)."""
    if k < 1:
        return ("ValueError", max_n, told_to)
    if max_n is None:
        if told_to >= k:
            return ("ok", k, k)
        return ("RuntimeError", max_n, told_to)
    if k == max_n and told_to == max_n:
        return ("ok", max_n, told_to)
    return ("RuntimeError", max_n, told_to)


def selfcheck(nmax=90, smax=9):
    """Closed form vs recurrence for E_bin; sanity for E_mix."""
    for n in range(1, nmax + 1):
        for s in range(1, smax + 1):
            if n > 1 or s >= 0:
                a, b = E_bin(n, s), E_bin_rec(n, s)
                if a != b:
                    raise AssertionError("E_bin closed form %r != recurrence %r at (%d,%d)"
                                         % (a, b, n, s))
    for n in range(2, 40):
        assert E_mix(n, 1) == n * (n + 1) // 2 - 1
        assert E_mix(n, n - 1) == n
    return True

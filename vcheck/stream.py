"""The whole-stream sweep (harness `stream`): construct a schedule from
(partly symbolic) parameters, pull its actions through the monitor for every
permitted / requested adjoint pass, apply the class specific oracles."""
from __future__ import annotations

import sys

from . import oracles
from .monitor import Monitor, st_name, check_action_wellformed, RAM, DISK, WORK, NONE
from .symx import PathAbort, is_sym, sym_and, Sym

INF = float("inf")
REVOLVE_FAMILY = ("HRevolve", "DiskRevolve", "PeriodicDiskRevolve", "Revolve")
OFFLINE = ("Multistage", "Mixed") + REVOLVE_FAMILY
ONLINE = ("SingleMemory", "SingleDiskCopy", "SingleDiskMove", "None", "TwoLevel")
ALL_CLASSES = OFFLINE + ONLINE
MULTIPASS = ("SingleMemory", "SingleDiskCopy", "TwoLevel")

_silenced = False


def silence_repo_output():
    """Stubs (DESIGN 3.3): the period print and the numba warning."""
    global _silenced
    if _silenced:
        return
    import warnings
    import checkpoint_schedules  # noqa: F401
    warnings.filterwarnings("ignore", message="Numba not available")
    m = sys.modules["checkpoint_schedules.hrevolve_sequences.periodic_disk_revolve"]
    m.print = lambda *a, **k: None
    m2 = sys.modules["checkpoint_schedules.multistage"]
    m2.print = lambda *a, **k: None
    _silenced = True


def storage_members():
    from checkpoint_schedules.schedule import StorageType
    return [StorageType.RAM, StorageType.DISK, StorageType.WORK, StorageType.NONE]


def draw_costs(ctx, opts):
    """The four step costs: symbolic reals (default), or the 2-parameter slice
    ub=uf, rd=wd, or fixed defaults."""
    mode = opts.get("costs", "sym")
    if opts.get("cost_choices"):
        # large-n probes: a few concrete cost vectors (exact rationals given as strings)
        from fractions import Fraction
        from .symx import ExactQ
        vec = ctx.choice("cost_i", [tuple(v) for v in opts["cost_choices"]])
        uf, ub, wd, rd = (ExactQ(Fraction(x)) for x in vec)
        return uf, ub, wd, rd
    if mode == "sym":
        uf = ctx.real("uf", 0, strict=True)
        ub = ctx.real("ub", 0, strict=True)
        wd = ctx.real("wd", 0, strict=False)
        rd = ctx.real("rd", 0, strict=False)
    elif mode == "sym2":
        uf = ctx.real("uf", 0, strict=True)
        wd = ctx.real("wd", 0, strict=False)
        ub, rd = uf, wd
    else:
        uf, ub, wd, rd = 1, 1, 2, 2
    return uf, ub, wd, rd


def draw_params(ctx, cls, n, opts):
    """Symbolic / enumerated constructor parameters of class cls for n steps."""
    P = {"cls": cls, "n": n}
    if opts.get("configs"):
        # a fixed list of parameter tuples (the suite's own grid): solver-enumerated choice
        P.update(ctx.choice("cfg", opts["configs"]))
        if cls in REVOLVE_FAMILY:
            P["uf"], P["ub"], P["wd"], P["rd"] = 1, 1, 2, 2
        return P
    if cls == "Multistage":
        P["ram"] = ctx.int("ram", 0, opts.get("ram_max"))
        P["disk"] = ctx.int("disk", 0, opts.get("disk_max"))
        if n > 1:
            ctx.assume(P["ram"] + P["disk"] >= 1)
        P["trajectory"] = ctx.choice("trajectory", ["maximum", "revolve"])
    elif cls == "Mixed":
        P["s"] = ctx.int("s", min(1, n - 1), opts.get("smax"))
        P["storage"] = ctx.choice("storage", [RAM, DISK])
    elif cls == "TwoLevel":
        if opts.get("period_sweep"):
            lo, hi = opts["period_sweep"]
            P["period"] = ctx.int("period", lo, hi, eager=True)
            P["n"] = n = ctx.choice("n_mult", [1, 2]) * P["period"] + 1
        elif opts.get("periods"):
            P["period"] = ctx.choice("period_i", list(opts["periods"]))
        else:
            P["period"] = ctx.int("period", 1, opts.get("pmax", n + 1), eager=True)
        if opts.get("b_list"):
            P["b"] = ctx.choice("b_i", list(opts["b_list"]))
        else:
            P["b"] = ctx.int("b", 0, opts.get("bmax", 3), eager=True)
        P["storage"] = ctx.choice("storage", [RAM, DISK])
        P["trajectory"] = ctx.choice("trajectory", ["maximum", "revolve"])
    elif cls in REVOLVE_FAMILY:
        P["ram"] = ctx.int("ram", opts.get("rmin", 1), opts.get("rmax", 2), eager=True)
        if cls == "HRevolve":
            P["disk"] = ctx.int("disk", opts.get("dmin", 0), opts.get("dmax", 2), eager=True)
        P["uf"], P["ub"], P["wd"], P["rd"] = draw_costs(ctx, opts)
        if cls == "PeriodicDiskRevolve" and is_sym(P["uf"]):
            # unwinding assumption of the period loop (DESIGN 3.3)
            from math import comb
            T = opts.get("unwind", 3)
            ctx.assume(P["wd"] + P["rd"] < comb(P["ram"] + 1 + T, T) * P["uf"])
    return P


def construct(P):
    import checkpoint_schedules as cs
    from checkpoint_schedules.schedule import StorageType
    cls, n = P["cls"], P["n"]
    ST = {RAM: StorageType.RAM, DISK: StorageType.DISK, WORK: StorageType.WORK,
          NONE: StorageType.NONE}
    if cls == "Multistage":
        return cs.MultistageCheckpointSchedule(n, P["ram"], P["disk"],
                                               trajectory=P["trajectory"])
    if cls == "Mixed":
        return cs.MixedCheckpointSchedule(n, P["s"], storage=ST[P["storage"]])
    if cls == "TwoLevel":
        return cs.TwoLevelCheckpointSchedule(P["period"], P["b"],
                                             binomial_storage=ST[P["storage"]],
                                             binomial_trajectory=P["trajectory"])
    if cls == "HRevolve":
        return cs.HRevolve(n, P["ram"], P["disk"], uf=P["uf"], ub=P["ub"], wd=P["wd"], rd=P["rd"])
    if cls == "DiskRevolve":
        return cs.DiskRevolve(n, P["ram"], uf=P["uf"], ub=P["ub"], wd=P["wd"], rd=P["rd"])
    if cls == "PeriodicDiskRevolve":
        return cs.PeriodicDiskRevolve(n, P["ram"], uf=P["uf"], ub=P["ub"], wd=P["wd"], rd=P["rd"])
    if cls == "Revolve":
        return cs.Revolve(n, P["ram"], uf=P["uf"], ub=P["ub"], wd=P["wd"], rd=P["rd"])
    if cls == "SingleMemory":
        return cs.SingleMemoryStorageSchedule()
    if cls == "SingleDiskCopy":
        return cs.SingleDiskStorageSchedule(move_data=False)
    if cls == "SingleDiskMove":
        return cs.SingleDiskStorageSchedule(move_data=True)
    if cls == "None":
        return cs.NoneCheckpointSchedule()
    raise ValueError(cls)


def budgets(P, N):
    """(RAM budget, DISK budget); None = unbounded.  The table of C03."""
    cls = P["cls"]
    if cls == "Multistage":
        return P["ram"], P["disk"]
    if cls == "Mixed":
        return (P["s"], 0) if P["storage"] == RAM else (0, P["s"])
    if cls == "TwoLevel":
        started = -(-N // P["period"])            # one disk checkpoint per started period
        if P["storage"] == RAM:
            return P["b"], started
        return 0, started + P["b"]
    if cls == "HRevolve":
        return P["ram"], P["disk"]
    if cls in ("DiskRevolve", "PeriodicDiskRevolve"):
        return P["ram"], None
    if cls == "Revolve":
        return P["ram"], 0
    if cls in ("SingleDiskCopy", "SingleDiskMove"):
        return 0, N
    return 0, 0


def permitted_passes(cls):
    if cls == "None":
        return 0
    if cls in MULTIPASS:
        return INF
    return 1


ACTION_KINDS = ("Forward", "Reverse", "Copy", "Move", "EndForward", "EndReverse")


def action_kind(a):
    k = type(a).__name__
    return k if k in ACTION_KINDS else None


def _truth(x):
    """Truth value of a flag; an observer that raised is neither True nor False."""
    if isinstance(x, tuple) and x and x[0] == "raised":
        return None
    return bool(x)


def observers(ctx, sched):
    """Read every observer; an exception is a failure of the property that owns
    the observer."""
    out = {}
    for name, tag in (("n", "C08.observer_raises"), ("r", "C08.observer_raises"),
                      ("max_n", "C08.observer_raises"),
                      ("is_exhausted", "C09.observer_raises"),
                      ("is_running", "C09.observer_raises")):
        try:
            out[name] = getattr(sched, name)
        except Exception as e:                         # noqa: BLE001
            out[name] = ("raised", type(e).__name__)
            if ctx.is_fatal(tag):
                ctx.fail(tag, {"observer": name, "exc": repr(e)})
    return out


def query_storage(ctx, sched, when):
    """C11: the query never raises, for every StorageType member."""
    res = {}
    for st in storage_members():
        try:
            res[st.name] = sched.uses_storage_type(st)
        except Exception as e:                         # noqa: BLE001
            res[st.name] = ("raised", type(e).__name__)
            if ctx.is_fatal("C11.raises"):
                ctx.fail("C11.raises", {"storage": st.name, "when": when, "exc": repr(e)})
    return res


def drive(ctx, sched, mon, P, passes_requested, opts):
    """Pull actions through the monitor.  Returns list of per-pass action logs."""
    cls = P["cls"]
    N = mon.N
    permitted = permitted_passes(cls)
    target = min(permitted, passes_requested)
    online = cls in ONLINE
    finalized = not online
    concrete_run = not ctx.symbolic
    pass_logs = [[]]
    storage_query_at = opts.get("storage_query_at", 3)

    ob = observers(ctx, sched)
    ctx.trace(("obs0", ob["n"], ob["r"], ob["max_n"], ob["is_exhausted"], ob["is_running"]))
    if ctx.is_fatal("C08.initial"):
        ctx.require(sym_and(ob["n"] == 0, ob["r"] == 0), "C08.initial", soft=True)
        ctx.require(ob["max_n"] is None if online else ob["max_n"] == N, "C08.max_n", soft=True)
    if ctx.is_fatal("C09.is_running"):
        ctx.require(_truth(ob["is_running"]) is False, "C09.is_running", {"when": "before first next()"}, soft=True)
    if ctx.is_fatal("C09.is_exhausted"):
        ctx.require(_truth(ob["is_exhausted"]) is False, "C09.is_exhausted", {"when": "before first next()"}, soft=True)
    q0 = query_storage(ctx, sched, "before")
    ctx.trace(("uses0", tuple(sorted(q0.items()))))

    count = 0
    limit = opts.get("max_actions", 3000000)
    done = False
    while not done:
        if target == 0 and mon.end_forward_seen:
            break
        try:
            a = next(sched)
        except StopIteration:
            ctx.trace(("stop", count))
            if ctx.is_fatal("C02.premature_stop"):
                ctx.fail("C02.premature_stop", mon._info)
            ctx.not_evaluable("premature StopIteration")
        except PathAbort:
            raise
        except Exception as e:                         # noqa: BLE001
            ctx.trace(("exc", type(e).__name__, count))
            if ctx.is_fatal("X.exception"):
                ctx.fail("X.exception", lambda: dict(mon._info(), exc=repr(e), at="next()"))
            ctx.not_evaluable("exception %s in next()" % type(e).__name__)
        count += 1
        if count > limit:
            ctx.fail("X.runaway", mon._info)
        kind = action_kind(a)
        if kind is None:
            if ctx.is_fatal("C18.action_type"):
                ctx.fail("C18.action_type", {"got": repr(type(a))})
            ctx.not_evaluable("unknown action type")
        args = a.args
        targs = tuple(st_name(x) if st_name(x) is not None else x for x in args)
        ctx.trace((kind,) + targs)
        pass_logs[-1].append((kind,) + targs)
        if concrete_run and ctx.is_fatal("C18.integral"):
            check_action_wellformed(ctx, a, kind)
        if kind == "Forward":
            if len(args) != 5:
                ctx.fail("C18.arity")
            mon.forward(args[0], args[1], args[2], args[3], st_name(args[4]))
            if mon.phase == "forward" and mon.fwd == N and not mon.end_forward_seen:
                # the forward has reached its true end: tell the schedule (as the
                # documentation and the suite's executor do)
                try:
                    sched.finalize(N)
                except PathAbort:
                    raise
                except Exception as e:                 # noqa: BLE001
                    ctx.trace(("finalize-exc", type(e).__name__))
                    for tag in ("C10.finalize_at_end", "X.exception"):
                        if ctx.is_fatal(tag):
                            ctx.fail(tag, lambda: dict(mon._info(), exc=repr(e), at="finalize"))
                    ctx.not_evaluable("finalize raised")
                finalized = True
                mon.max_n_known = True
        elif kind == "Reverse":
            mon.reverse(args[0], args[1], args[2])
        elif kind == "Copy":
            mon.copy(args[0], st_name(args[1]), st_name(args[2]))
        elif kind == "Move":
            mon.move(args[0], st_name(args[1]), st_name(args[2]))
        elif kind == "EndForward":
            mon.end_forward()
            pass_logs.append([])
        elif kind == "EndReverse":
            more = permitted == INF
            mon.end_reverse(more)
            if mon.passes_done >= target:
                done = True
            else:
                pass_logs.append([])
        # ---- observers after the action --------------------------------
        ob = observers(ctx, sched)
        ctx.trace(("obs", ob["n"], ob["r"], ob["max_n"], ob["is_exhausted"], ob["is_running"]))
        if kind == "EndReverse" and permitted == INF and ctx.is_fatal("C09.repeat"):
            # the public state at consecutive EndReverse points is the same (with equal stored
            # sets, C04, and equal passes, this is the inductive step for any number of passes)
            snap = (ob["n"], ob["r"], ob["max_n"], _truth(ob["is_exhausted"]), _truth(ob["is_running"]))
            if getattr(mon, "_end_reverse_obs", None) is None:
                mon._end_reverse_obs = snap
            else:
                ctx.require(sym_and(*[a == b if (a is not None and b is not None) else a is b
                                      for a, b in zip(snap, mon._end_reverse_obs)]),
                            "C09.repeat", lambda: {"public_state_at_EndReverse": snap,
                                                   "at_first_EndReverse": mon._end_reverse_obs}, soft=True)
        if ctx.is_fatal("C08.n"):
            if mon.fwd is not None:
                ctx.require(ob["n"] == mon.fwd, "C08.n",
                            lambda: dict(mon._info(), sched_n=ob["n"]), soft=True)
            exp_r = mon.r
            if kind == "EndReverse" and permitted != INF:
                exp_r = N            # no further calculation: not reset
            ctx.require(ob["r"] == exp_r, "C08.r", lambda: dict(mon._info(), sched_r=ob["r"]), soft=True)
            if finalized:
                ctx.require(ob["max_n"] == N, "C08.max_n", soft=True)
            else:
                ctx.require(ob["max_n"] is None, "C08.max_n", soft=True)
        if ctx.is_fatal("C09.is_running"):
            ctx.require(_truth(ob["is_running"]) is True, "C09.is_running",
                        {"when": "after %d actions" % count}, soft=True)
        if ctx.is_fatal("C09.is_exhausted"):
            final = (permitted == 0 and kind == "EndForward") or \
                    (permitted == 1 and kind == "EndReverse")
            ctx.require(_truth(ob["is_exhausted"]) is final, "C09.is_exhausted",
                        {"when": "after %s (action %d)" % (kind, count), "expected": final,
                         "got": ob["is_exhausted"]}, soft=True)
        if ctx.is_fatal("C11.raises"):
            # the query can be made at every moment of the iteration
            qd = query_storage(ctx, sched, "after action %d" % count)
            if ctx.is_fatal("C11.underreport"):
                for st in (RAM, DISK):
                    if mon.touched[st]:
                        ctx.require(_truth(qd.get(st)) is True, "C11.underreport",
                                    {"storage": st, "when": "after action %d" % count,
                                     "answer": repr(qd.get(st))}, soft=True)
        if target == 0 and kind == "EndForward":
            done = True

    # ---- after the last permitted calculation ----------------------------
    if permitted != INF and (ctx.is_fatal("C02.after_end") or ctx.is_fatal("C09.stop_persists")):
        for k in range(opts.get("extra_next", 6)):
            try:
                extra = next(sched)
            except StopIteration:
                continue
            except PathAbort:
                raise
            except Exception as e:                     # noqa: BLE001
                for tag in ("C02.after_end", "C09.stop_persists"):
                    if ctx.is_fatal(tag):
                        ctx.fail(tag, {"exc": repr(e), "call": k})
                break
            else:
                for tag in ("C02.after_end", "C09.stop_persists"):
                    if ctx.is_fatal(tag):
                        ctx.fail(tag, {"extra_action": repr(extra), "call": k})
                break
        ob = observers(ctx, sched)
        if ctx.is_fatal("C09.is_exhausted"):
            ctx.require(_truth(ob["is_exhausted"]) is True, "C09.is_exhausted", {"when": "after StopIteration"}, soft=True)
    q1 = query_storage(ctx, sched, "after")
    ctx.trace(("uses1", tuple(sorted(q1.items()))))
    if ctx.is_fatal("C11.underreport"):
        for st in (RAM, DISK):
            if mon.touched[st]:
                ctx.require(_truth(q0.get(st)) is True, "C11.underreport",
                            {"storage": st, "when": "before", "answer": repr(q0.get(st))}, soft=True)
                ctx.require(_truth(q1.get(st)) is True, "C11.underreport",
                            {"storage": st, "when": "after", "answer": repr(q1.get(st))}, soft=True)
    # ---- repeated passes are exact repeats (C09) --------------------------
    if ctx.is_fatal("C09.repeat") and len(pass_logs) > 2:
        first = pass_logs[1]
        for j in range(2, len(pass_logs)):
            ctx.require(pass_logs[j] == first, "C09.repeat",
                        {"pass": j, "first": first[:8], "this": pass_logs[j][:8]}, soft=True)
    return pass_logs


def stream_cost(P, mon):
    """Cost of the executed stream in the model of the property statement."""
    n = mon.N
    return P["uf"] * mon.fwd_steps + P["ub"] * n + P["wd"] * mon.disk_writes + P["rd"] * mon.disk_loads


def count_stream(sched, N):
    """Light executor: counts only (no checks).  -> (F, disk_writes, disk_loads)"""
    F = W = R = 0
    for a in sched:
        k = type(a).__name__
        if k == "Forward":
            F += a.args[1] - a.args[0]
            if st_name(a.args[4]) == DISK:
                W += 1
        elif k in ("Copy", "Move"):
            if st_name(a.args[1]) == DISK and st_name(a.args[2]) == WORK:
                R += 1
        elif k == "EndReverse":
            break
    return F, W, R


def apply_oracles(ctx, P, mon, pass_logs, opts):
    cls, n = P["cls"], P["n"]
    if cls == "Multistage" and ctx.is_fatal("C05.stream_steps"):
        s = P["ram"] + P["disk"]
        exp = n + oracles.E_bin(n, s if s < n - 1 else n - 1) if n > 1 else 1
        ctx.require(mon.fwd_steps == exp, "C05.stream_steps",
                    lambda: {"forward_steps": mon.fwd_steps, "optimum": exp}, soft=True)
    if cls == "Revolve" and ctx.is_fatal("C05.stream_steps"):
        s = min(P["ram"], n - 1)
        exp = n + oracles.E_bin(n, s) if n > 1 else 1
        ctx.require(mon.fwd_steps == exp, "C05.stream_steps",
                    lambda: {"forward_steps": mon.fwd_steps, "optimum": exp}, soft=True)
    if cls == "Mixed" and ctx.is_fatal("C06.stream_steps"):
        s = P["s"]
        exp = oracles.E_mix(n, int(s) if s < n - 1 else n - 1) if n > 1 else 1
        ctx.require(mon.fwd_steps == exp, "C06.stream_steps",
                    lambda: {"forward_steps": mon.fwd_steps, "optimum": exp}, soft=True)
    if cls == "TwoLevel" and ctx.is_fatal("C13.block_steps"):
        p, b, bst = P["period"], P["b"], P["storage"]
        nblocks = -(-n // p)
        for j in range(mon.passes_done):
            steps = [0] * nblocks
            for ev in mon.events:
                if ev[0] == "forward" and ev[3] == "reverse" and ev[4] == j:
                    steps[ev[1] // p] += ev[2] - ev[1]
            for k in range(nblocks):
                L = min((k + 1) * p, n) - k * p
                exp = L + oracles.E_bin(L, min(b + 1, L - 1)) if L > 1 else 1
                ctx.require(steps[k] == exp, "C13.block_steps",
                            lambda: {"pass": j, "block": k, "length": L, "forward_steps": steps[k],
                                     "binomial_optimum": exp, "period": p, "binomial_snapshots": b},
                            soft=True)
        for ev in mon.events:
            if ev[0] == "write" and ev[5] == "reverse":
                ctx.require(ev[1] == bst and ev[4] == "ics", "C13.extra_storage",
                            lambda: {"write": ev, "binomial_storage": bst}, soft=True)
            if ev[0] == "write" and ev[5] == "forward":
                ctx.require(ev[1] == DISK and ev[2] % p == 0 and ev[4] == "ics", "C13.forward_phase",
                            lambda: {"write": ev}, soft=True)
            if ev[0] == "load":
                exp_src = DISK if ev[2] % p == 0 else bst
                ctx.require(ev[1] == exp_src, "C13.extra_storage",
                            lambda: {"load": ev, "expected_source": exp_src}, soft=True)
    if cls in REVOLVE_FAMILY and ctx.is_fatal("C07.cost"):
        T = oracles.CostTables(P["uf"], P["ub"], P["wd"], P["rd"])
        cost = stream_cost(P, mon)
        ctx.trace(("cost", cost))
        shift = n * P["uf"]      # the n taping steps, booked under ub in the papers' model
        if cls == "HRevolve":
            opt = T.hopt(1, n - 1, P["disk"], P["ram"])
            ctx.require(cost == opt + shift, "C07.cost",
                        lambda: {"cost": cost, "optimum": opt + shift, "class": cls}, soft=True)
        elif cls == "DiskRevolve":
            opt = T.optinf(n - 1, P["ram"])
            ctx.require(cost == opt + shift, "C07.cost",
                        lambda: {"cost": cost, "optimum": opt + shift, "class": cls}, soft=True)
        elif cls == "Revolve":
            opt = T.opt0(n - 1, P["ram"])
            ctx.require(cost == opt + shift, "C07.cost",
                        lambda: {"cost": cost, "optimum": opt + shift, "class": cls}, soft=True)
        # relational claims, evaluated on the same path (= same cost region)
        import checkpoint_schedules as cs
        kw = dict(uf=P["uf"], ub=P["ub"], wd=P["wd"], rd=P["rd"])

        def other_cost(sch):
            F, W, R = count_stream(sch, n)
            return P["uf"] * F + P["ub"] * n + P["wd"] * W + P["rd"] * R
        try:
            if cls == "HRevolve" and P["disk"] >= 1:
                c2 = other_cost(cs.HRevolve(n, P["ram"], P["disk"] - 1, **kw))
                ctx.require(cost <= c2, "C07.monotone_disk",
                            lambda: {"cost_d": cost, "cost_d_minus_1": c2}, soft=True)
            if cls == "DiskRevolve":
                c2 = other_cost(cs.Revolve(n, P["ram"], **kw))
                ctx.require(cost <= c2, "C07.disk_le_revolve",
                            lambda: {"disk_revolve": cost, "revolve": c2}, soft=True)
            if cls == "PeriodicDiskRevolve":
                c2 = other_cost(cs.DiskRevolve(n, P["ram"], **kw))
                ctx.require(cost >= c2, "C07.periodic_ge_disk",
                            lambda: {"periodic": cost, "disk_revolve": c2}, soft=True)
        except PathAbort:
            raise
        except Exception as e:                          # noqa: BLE001
            ctx.fail("C07.cost", {"exc_in_sibling_schedule": repr(e)})


def stream_harness(ctx, cls, n, passes=1, opts=None):
    """One schedule class, n steps (None: symbolic for SingleMemory/None)."""
    opts = opts or {}
    silence_repo_output()
    if n is None and not opts.get("period_sweep"):
        N = ctx.int("N", 1, opts.get("Nmax", 3 * sys.maxsize))
    else:
        N = n
    P = draw_params(ctx, cls, N, opts)
    N = P["n"]
    ctx.trace(("params", tuple(sorted((k, v) for k, v in P.items()))))
    try:
        sched = construct(P)
    except PathAbort:
        raise
    except Exception as e:                             # noqa: BLE001
        ctx.trace(("construct-exc", type(e).__name__))
        # a valid tuple rejected at construction is C17's business (no action was emitted, so the
        # stream properties have nothing to judge)
        if ctx.is_fatal("C17.valid_rejected"):
            ctx.fail("C17.valid_rejected", {"exc": repr(e), "at": "constructor", "params": {k: v for k, v in P.items()}})
        ctx.not_evaluable("constructor raised %s" % type(e).__name__)
    rb, db = budgets(P, N)
    mon = Monitor(ctx, N, rb, db, keeps_all_adj=(cls == "SingleMemory"),
                  max_n_known=(cls in OFFLINE))
    logs = drive(ctx, sched, mon, P, passes, opts)
    apply_oracles(ctx, P, mon, logs, opts)
    ctx.cover("completed")
    if mon.disk_loads + mon.ram_loads > 0:
        ctx.cover("__nontrivial__")
    ctx.trace(("totals", mon.fwd_steps, mon.disk_writes, mon.disk_loads, mon.peak[RAM], mon.peak[DISK]))
    return mon

"""Thorough-tier cross-checks (DESIGN 3.4 / 3.5): CrossHair as a second engine for
the integer unit harnesses, and re-decision of sampled solver queries with the
z3 4.8.12 and cvc5 1.0 binaries."""
from __future__ import annotations

import ast
import inspect
import os
import re
import subprocess
import sys
import tempfile
import time


def run_crosshair(prop, per_condition_timeout=60):
    """-> (results, violations).  results: {fn: verdict}; violations: list of
    (fn, kwargs) counterexamples that reproduce when the function is called."""
    from . import xh_targets
    names = xh_targets.TARGETS.get(prop, [])
    results, violations = {}, []
    if not names:
        return results, violations
    path = inspect.getsourcefile(xh_targets)
    src_lines = open(path).read().splitlines()
    exe = os.path.join(os.path.dirname(sys.executable), "crosshair")
    procs = {}
    for name in names:
        line = next(i for i, l in enumerate(src_lines, 1) if l.startswith("def %s(" % name))
        cmd = [exe, "check", "--report_all", "--per_condition_timeout", str(per_condition_timeout),
               "%s:%d" % (path, line + 1)]
        procs[name] = subprocess.Popen(cmd, stdout=subprocess.PIPE, stderr=subprocess.STDOUT, text=True,
                                       cwd=os.path.dirname(os.path.dirname(path)))
    for name, p in procs.items():
        try:
            out, _ = p.communicate(timeout=per_condition_timeout * 4 + 60)
        except subprocess.TimeoutExpired:
            p.kill()
            results[name] = "cross-check inconclusive (timeout)"
            continue
        if "Confirmed over all paths" in out:
            results[name] = "confirmed over all paths"
        elif "error:" in out and "when calling" in out:
            m = re.search(r"when calling %s\((.*)\)" % name, out)
            kwargs = None
            if m:
                try:
                    call = ast.parse("f(%s)" % m.group(1), mode="eval").body
                    kwargs = {k.arg: ast.literal_eval(k.value) for k in call.keywords}
                    if call.args:
                        params = list(inspect.signature(getattr(xh_targets, name)).parameters)
                        for pn, a in zip(params, call.args):
                            kwargs[pn] = ast.literal_eval(a)
                except Exception:                           # noqa: BLE001
                    kwargs = None
            if kwargs is not None:
                try:
                    ok = getattr(xh_targets, name)(**kwargs)
                except Exception:                           # noqa: BLE001
                    ok = False
                if not ok:
                    violations.append((name, kwargs))
                    results[name] = "counterexample %r (reproduces)" % (kwargs,)
                else:
                    results[name] = "counterexample %r did not reproduce: cross-check inconclusive" % (kwargs,)
            else:
                results[name] = "cross-check inconclusive (unparsed: %s)" % out.strip()[-200:]
        else:
            results[name] = "cross-check inconclusive (%s)" % (out.strip().splitlines()[-1][-160:] if out.strip() else "no output")
    return results, violations


def recheck_queries(entries, timeout_s=20, limit=60):
    """entries: list of (smt2 text, 'sat'|'unsat') answered by the z3 5.1 python API.
    Re-decided by /usr/bin/z3 (4.8.12) and the cvc5 1.0 binary.
    -> dict(counts), list of disagreements"""
    stats = {"queries": 0, "z3_4_8_agree": 0, "cvc5_agree": 0, "z3_4_8_unknown": 0, "cvc5_unknown": 0,
             "solver_s": 0.0}
    bad = []
    for text, expected in entries[:limit]:
        stats["queries"] += 1
        with tempfile.NamedTemporaryFile("w", suffix=".smt2", delete=False) as f:
            f.write("(set-logic ALL)\n" + text)
            fn = f.name
        try:
            for tool, cmd in (("z3_4_8", ["/usr/bin/z3", "-T:%d" % timeout_s, fn]),
                              ("cvc5", ["cvc5", "--tlimit=%d" % (timeout_s * 1000), fn])):
                t0 = time.time()
                try:
                    p = subprocess.run(cmd, capture_output=True, text=True, timeout=timeout_s + 10)
                    out = (p.stdout + p.stderr).strip()
                except (subprocess.TimeoutExpired, FileNotFoundError):
                    out = "timeout"
                stats["solver_s"] += time.time() - t0
                first = out.splitlines()[0].strip() if out else ""
                if "(error" in out:
                    stats[tool + "_unknown"] += 1
                    stats.setdefault(tool + "_errors", 0)
                    stats[tool + "_errors"] += 1
                elif first in ("sat", "unsat"):
                    if first == expected:
                        stats[tool + "_agree"] += 1
                    else:
                        bad.append({"tool": tool, "expected": expected, "got": first, "query": text[:2000]})
                else:
                    stats[tool + "_unknown"] += 1
        finally:
            os.unlink(fn)
    stats["solver_s"] = round(stats["solver_s"], 2)
    return stats, bad

"""Second engine (DESIGN 3.5): integer-only unit harnesses as plain functions with
PEP316 contracts, decided by CrossHair 0.0.110 in the thorough tier.  Each
function returns True iff the property holds for its arguments; `post: _` asks
CrossHair to confirm it over all paths or produce a counterexample, which is
then replayed by calling the function concretely."""
from __future__ import annotations

from checkpoint_schedules.schedule import Forward, Reverse, Copy, StorageType
from checkpoint_schedules.multistage import n_advance, MultistageCheckpointSchedule
from checkpoint_schedules.basic_schedules import SingleDiskStorageSchedule
from checkpoint_schedules.schedule import EndForward, EndReverse

from .oracles import E_bin, fin_spec


def xh_contains(n0: int, n1: int, x: int) -> bool:
    """
    post: _
    """
    a = Forward(n0, n1, False, False, StorageType.NONE)
    b = Reverse(n1, n0, True)
    return ((x in a) == (n0 <= x < n1)) and ((x in b) == (n0 <= x < n1))


def xh_eq(a0: int, a1: int, b0: int, b1: int, fa: bool, fb: bool, kind: bool) -> bool:
    """
    post: _
    """
    x = Forward(a0, a1, fa, False, StorageType.RAM)
    y = Forward(b0, b1, fb, False, StorageType.RAM) if kind else Reverse(b0, b1, fb)
    exp = kind and a0 == b0 and a1 == b1 and fa == fb
    return ((x == y) == exp) and ((x != y) == (not exp)) and not (x == Copy(a0, StorageType.RAM, StorageType.WORK))


def xh_nadv(n: int, s: int, traj: bool) -> bool:
    """
    pre: 2 <= n <= 20
    pre: 1 <= s <= 4
    post: _
    """
    i = n_advance(n, s, trajectory="maximum" if traj else "revolve")
    if not (1 <= i <= n - 1):
        return False
    return i + E_bin(i, s) + E_bin(n - i, s - 1) == E_bin(n, s)


def _outcome(sched, k):
    try:
        sched.finalize(k)
        return "ok"
    except ValueError:
        return "ValueError"
    except RuntimeError:
        return "RuntimeError"


def xh_finalize(steps: int, k1: int, k2: int) -> bool:
    """
    pre: 0 <= steps <= 3
    post: _
    """
    s = SingleDiskStorageSchedule()
    for _ in range(steps):
        next(s)
    for k in (k1, k2):
        told, mx = s.n, s.max_n
        exp, emx, en = fin_spec(told, mx, k)
        got = _outcome(s, k)
        if got != exp or s.max_n != emx or s.n != en:
            return False
        if got == "ok" and mx is None:
            if not isinstance(next(s), EndForward):
                return False
    return True


def xh_multistage_domain(n: int, ram: int, disk: int, traj: bool) -> bool:
    """
    pre: -1 <= n <= 5
    pre: 0 <= ram <= 6
    pre: 0 <= disk <= 6
    post: _
    """
    valid = n >= 1 and (n == 1 or ram + disk >= 1)
    emitted = 0
    try:
        s = MultistageCheckpointSchedule(n, ram, disk, trajectory="maximum" if traj else "revolve")
        for a in s:
            emitted += 1
            if isinstance(a, EndReverse):
                return valid
            if emitted > 500:
                return False
        return False
    except Exception:                                       # noqa: BLE001
        return (not valid) and emitted == 0


def _reset_memos():
    """Process-global memo tables would carry values from one explored path into the next."""
    from checkpoint_schedules import mixed, multistage
    from . import oracles
    for fn in (mixed.optimal_steps_mixed, mixed.mixed_step_memoization, multistage.optimal_extra_steps):
        for cell in fn.__closure__ or ():
            if isinstance(cell.cell_contents, dict):
                cell.cell_contents.clear()
    oracles._M.clear()
    oracles._T.clear()


def _forward_steps(sched):
    total = 0
    for a in sched:
        if isinstance(a, Forward):
            total += a.n1 - a.n0
        if isinstance(a, EndReverse):
            break
    return total


def xh_multistage_steps(n: int, ram: int, disk: int, traj: bool) -> bool:
    """
    pre: 1 <= n <= 9
    pre: 0 <= ram <= 3
    pre: 0 <= disk <= 3
    pre: n == 1 or ram + disk >= 1
    post: _
    """
    s = MultistageCheckpointSchedule(n, ram, disk, trajectory="maximum" if traj else "revolve")
    exp = n + E_bin(n, min(ram + disk, n - 1)) if n > 1 else 1
    return _forward_steps(s) == exp


def xh_mixed_steps(n: int, s: int, ram: bool) -> bool:
    """
    pre: 1 <= n <= 8
    pre: 1 <= s <= 4
    post: _
    """
    from checkpoint_schedules.mixed import MixedCheckpointSchedule
    from .oracles import E_mix
    _reset_memos()
    sch = MixedCheckpointSchedule(n, s, storage=StorageType.RAM if ram else StorageType.DISK)
    exp = E_mix(n, min(s, n - 1)) if n > 1 else 1
    return _forward_steps(sch) == exp


def xh_twolevel_forward(period: int, b: int, k: int) -> bool:
    """
    pre: period >= 1
    pre: b >= 0
    pre: 1 <= k <= 6
    post: _
    """
    from checkpoint_schedules.twolevel_binomial import TwoLevelCheckpointSchedule
    s = TwoLevelCheckpointSchedule(period, b, binomial_storage=StorageType.RAM)
    for j in range(k):
        a = next(s)
        if not (isinstance(a, Forward) and a.args == (j * period, (j + 1) * period, True, False, StorageType.DISK)):
            return False
        if s.n != (j + 1) * period or s.max_n is not None or s.r != 0:
            return False
    return True


TARGETS = {
    "C05": ["xh_nadv", "xh_multistage_steps"],
    "C06": ["xh_mixed_steps"],
    "C13": ["xh_nadv", "xh_twolevel_forward"],
    "C10": ["xh_finalize"],
    "C17": ["xh_multistage_domain"],
    "C18": ["xh_contains", "xh_eq"],
}

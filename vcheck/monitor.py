"""Reference executor ("monitor") for checkpoint_schedules action streams.

It does literally what the docstrings of schedule.py say an action means and
raises tagged requirements.  The state uses intervals, so it also works when the
number of steps N is a symbolic integer (SingleMemory / None schedules).

Tags are "<property>.<what>"; a check for property X makes only X's tags fatal
(see DESIGN.md 3.1).
"""
from __future__ import annotations

import numbers

from .symx import sym_and, sym_or, is_sym

RAM, DISK, WORK, NONE = "RAM", "DISK", "WORK", "NONE"


def st_name(st):
    """StorageType member -> name, anything else -> None"""
    return getattr(st, "name", None) if type(st).__name__ == "StorageType" else None


class Monitor:
    def __init__(self, ctx, N, ram_budget, disk_budget, keeps_all_adj=False,
                 max_n_known=False):
        self.ctx = ctx
        self.N = N
        self.budget = {RAM: ram_budget, DISK: disk_budget}   # None = unbounded
        self.keeps_all_adj = keeps_all_adj
        self.max_n_known = max_n_known       # schedule knows N (offline or finalised)
        self.fwd = 0                         # forward position in WORK or None
        self.r = 0
        self.work_ics = None                 # (lo, hi) or None
        self.work_adj = None
        self.store = {RAM: {}, DISK: {}}     # key -> (kind, lo, hi), kind in ics/adj
        self.peak = {RAM: 0, DISK: 0}
        self.touched = {RAM: False, DISK: False}
        self.phase = "forward"               # forward | reverse | done
        self.sweep_pos = 0                   # initial sweep coverage
        self.end_forward_seen = 0
        self.passes_done = 0
        self.fwd_steps = 0                   # total forward steps executed
        self.fwd_steps_pass = 0              # in the current phase (sweep or pass)
        self.disk_writes = 0
        self.disk_loads = 0
        self.ram_writes = 0
        self.ram_loads = 0
        self.n_actions = 0
        self.store_at_end_forward = None
        self.log = []                        # (kind, args) of actions seen
        self.events = []                     # structured events for class specific oracles

    # ------------------------------------------------------------------
    def req(self, cond, tag, structural=False, info=None):
        ctx = self.ctx
        if tag.startswith("C01.") and self.passes_done >= 1 and not ctx.is_fatal(tag) \
                and ctx.is_fatal("C09.repeat_executable"):
            # executability of a FURTHER adjoint calculation is what C09 promises
            tag = "C09.repeat_executable"
        if ctx.is_fatal(tag):
            ctx.require(cond, tag, info or self._info, soft=not structural)
        elif structural:
            # not this check's business, but the executor state would be meaningless
            if cond:
                return
            ctx.not_evaluable(tag)

    def _info(self):
        return {"after_actions": self.n_actions, "last_actions": self.log[-6:],
                "fwd": self.fwd, "r": self.r, "N": self.N,
                "store": {k: sorted(v) for k, v in self.store.items()}}

    def _store_ckpt(self, st, key, kind, lo, hi):
        s = self.store[st]
        self.req(key not in s, "C01.no_overwrite", structural=True)
        s[key] = (kind, lo, hi)
        self.touched[st] = True
        if len(s) > self.peak[st]:
            self.peak[st] = len(s)
        b = self.budget[st]
        if b is not None:
            self.req(len(s) <= b, "C03." + st.lower())

    # ------------------------------------------------------------------
    def forward(self, n0, n1, write_ics, write_adj, storage):
        ctx = self.ctx
        N = self.N
        self.n_actions += 1
        self.log.append(("Forward", n0, n1, write_ics, write_adj, storage))
        self.req(self.phase != "done", "C02.after_end", structural=True)
        self.req(self.fwd is not None, "C01.forward_start", structural=True)
        self.req(n0 == self.fwd, "C01.forward_start", structural=True)
        self.req(n1 > n0, "C18.forward_range", structural=True)
        if self.max_n_known:
            # never beyond the adjoint position (after finalisation: the last step)
            self.req(n1 <= N - self.r, "C12.overshoot", structural=True)
            e1 = n1
        else:
            e1 = n1 if n1 <= N else N
        if self.phase == "forward":
            self.req(n0 == self.sweep_pos, "C02.sweep_contiguous")
            self.sweep_pos = e1
        steps = e1 - n0
        self.fwd_steps += steps
        self.fwd_steps_pass += steps
        self.fwd = e1
        # a Forward overwrites what working storage held (a schedule that keeps
        # the adjoint data of all steps in working storage extends it instead)
        prev_adj = self.work_adj
        self.work_ics = None
        self.work_adj = None
        ics = (n0, e1) if write_ics else None
        adj = (n0, e1) if write_adj else None
        if storage in (RAM, DISK):
            self.req(write_ics or write_adj, "C18.storage_flags")
            self.req(not (write_ics and write_adj), "C03.kind")
            if write_adj and not write_ics:
                self.req(e1 - n0 == 1, "C03.kind")
            # what the checkpoint holds is what the flags say (both, if both are set)
            kind = "both" if (write_ics and write_adj) else ("ics" if write_ics else "adj")
            self._store_ckpt(storage, n0, kind, n0, e1)
            if storage == DISK:
                self.disk_writes += 1
            else:
                self.ram_writes += 1
            self.events.append(("write", storage, n0, e1, kind, self.phase))
        elif storage == WORK:
            self.work_ics = ics
            self.work_adj = adj
            if self.keeps_all_adj and write_adj and prev_adj is not None and prev_adj[1] == n0:
                self.work_adj = (prev_adj[0], e1)
            if write_adj and not self.keeps_all_adj:
                self.req(sym_and(e1 - n0 == 1, n0 == N - self.r - 1), "C12.adj_single_step")
            self.req(not (write_ics and write_adj), "C12.work_one_thing")
        elif storage == NONE:
            self.req(not write_ics and not write_adj, "C18.storage_flags")
        else:
            self.req(False, "C18.storage_type", structural=True)
        self.events.append(("forward", n0, e1, self.phase, self.passes_done))

    def _load(self, is_move, n, src, dst):
        N = self.N
        self.n_actions += 1
        self.log.append(("Move" if is_move else "Copy", n, src, dst))
        self.req(self.phase == "reverse", "C02.phase", structural=False)
        self.req(self.phase != "done", "C02.after_end", structural=True)
        self.req(src in (RAM, DISK), "C18.copy_source", structural=True)
        self.touched[src] = True
        s = self.store[src]
        self.req(n in s, "C01.ckpt_exists", structural=True)
        kind, lo, hi = s[n]
        if is_move:
            del s[n]
        if dst == WORK:
            # loaded only when working storage holds nothing pending
            self.req(self.work_ics is None and self.work_adj is None, "C12.load_into_busy_work")
            self.req(n < N - self.r, "C01.ckpt_covers")
            if kind in ("ics", "both"):
                self.fwd = n
                self.work_ics = (lo, hi)
                # restart data must cover the steps still to be recomputed
                self.req(hi >= N - self.r, "C01.ckpt_covers")
            else:
                self.fwd = None
            if kind in ("adj", "both"):
                self.work_adj = (lo, hi)
                if not self.keeps_all_adj:
                    # working storage never holds adjoint data of more than one step,
                    # and only of the step just before the adjoint position
                    self.req(hi - lo <= 1, "C12.adj_single_step")
                    self.req(self.work_ics is None, "C12.work_one_thing")
            if src == DISK:
                self.disk_loads += 1
            else:
                self.ram_loads += 1
            self.events.append(("load", src, n, kind, is_move, self.passes_done))
        elif dst in (RAM, DISK):
            self._store_ckpt(dst, n, kind, lo, hi)
            self.events.append(("transfer", src, dst, n, is_move))
        elif dst == NONE:
            self.events.append(("delete", src, n, is_move))
        else:
            self.req(False, "C18.copy_dest", structural=True)

    def copy(self, n, src, dst):
        self._load(False, n, src, dst)

    def move(self, n, src, dst):
        self._load(True, n, src, dst)

    def reverse(self, n1, n0, clear):
        N = self.N
        self.n_actions += 1
        self.log.append(("Reverse", n1, n0, clear))
        self.req(self.phase == "reverse", "C02.phase", structural=True)
        self.req(n1 == N - self.r, "C02.reverse_order", structural=True)
        self.req(sym_and(n0 < n1, n0 >= 0), "C02.reverse_order", structural=True)
        wa = self.work_adj
        self.req(wa is not None, "C01.reverse_data", structural=True)
        self.req(sym_and(wa[0] <= n0, n1 <= wa[1]), "C01.reverse_data", structural=True)
        if not self.keeps_all_adj:
            self.req(wa[1] - wa[0] <= 1, "C12.adj_single_step")
        self.r = self.r + (n1 - n0)
        if clear:
            self.work_adj = None
        self.events.append(("reverse", n1, n0, self.passes_done))

    def end_forward(self):
        self.n_actions += 1
        self.log.append(("EndForward",))
        self.req(self.phase == "forward", "C02.end_forward", structural=True)
        self.req(self.fwd is not None, "C02.end_forward", structural=True)
        self.req(self.fwd == self.N, "C02.end_forward", structural=True)
        self.req(self.sweep_pos == self.N, "C02.sweep_contiguous")
        self.phase = "reverse"
        self.end_forward_seen += 1
        self.store_at_end_forward = self.snapshot_store()
        self.sweep_steps = self.fwd_steps
        self.fwd_steps_pass = 0
        self.events.append(("end_forward",))

    def end_reverse(self, more_passes):
        self.n_actions += 1
        self.log.append(("EndReverse",))
        self.req(self.phase == "reverse", "C02.end_reverse", structural=True)
        self.req(self.r == self.N, "C02.end_reverse", structural=True)
        self.passes_done += 1
        if more_passes:
            self.req(self.snapshot_store() == self.store_at_end_forward, "C04.accumulate")
            self.r = 0
        else:
            self.req(not self.store[RAM] and not self.store[DISK], "C04.clean")
            self.phase = "done"
        self.events.append(("end_reverse", self.passes_done))
        self.fwd_steps_pass = 0

    def snapshot_store(self):
        return tuple(sorted((st, k) + v for st in (RAM, DISK) for k, v in self.store[st].items()))

    def work_ok(self):
        """data_limit of the suite: restart data and adjoint data never together,
        at most one step of adjoint data (except SingleMemory)."""
        if self.keeps_all_adj:
            return True
        return not (self.work_ics is not None and self.work_adj is not None)


def check_action_wellformed(ctx, a, kind):
    """C18(a): only meaningful on concrete values (twin run)."""
    import sys
    from checkpoint_schedules import schedule as S
    from checkpoint_schedules.schedule import StorageType

    def req(cond, tag, info=None):
        # soft: the twin run must go on so that its trace stays comparable
        ctx.require(cond, tag, info or (lambda: {"action": repr(a)}), soft=True)
    try:
        _wellformed(ctx, a, kind, req, S, StorageType, sys)
    except Exception as e:                                  # noqa: BLE001
        req(False, "C18.integral", lambda: {"action": repr(a), "exc": repr(e)})


def _wellformed(ctx, a, kind, req, S, StorageType, sys):
    # repr() of an emitted action evaluates back to an equal action
    try:
        ns = {k: getattr(S, k) for k in ("Forward", "Reverse", "Copy", "Move", "EndForward",
                                          "EndReverse", "StorageType")}
        ns["sys"] = sys
        back = eval(repr(a), ns)                            # noqa: S307
        ok = type(back) is type(a) and tuple(back.args) == tuple(a.args)
    except Exception as e:                                  # noqa: BLE001
        ok = False
    req(ok, "C18.repr_roundtrip", lambda: {"repr": repr(a)})
    if kind == "Forward":
        n0, n1, wi, wa, st = a.args
        req(isinstance(n0, numbers.Integral) and not isinstance(n0, bool)
            and isinstance(n1, numbers.Integral) and not isinstance(n1, bool), "C18.integral")
        req(0 <= n0 < n1, "C18.forward_range")
        req(isinstance(wi, bool) and isinstance(wa, bool), "C18.bool_flags")
        req(isinstance(st, StorageType), "C18.storage_type")
        if st in (StorageType.RAM, StorageType.DISK):
            req(wi or wa, "C18.storage_flags")
        if st == StorageType.NONE:
            req(not wi and not wa, "C18.storage_flags")
        if not wi and not wa:
            req(st in (StorageType.NONE, StorageType.WORK), "C18.storage_flags")
    elif kind == "Reverse":
        n1, n0, cl = a.args
        req(isinstance(n0, numbers.Integral) and isinstance(n1, numbers.Integral)
            and not isinstance(n0, bool) and not isinstance(n1, bool), "C18.integral")
        req(n1 > n0 >= 0, "C18.reverse_range")
        req(isinstance(cl, bool), "C18.bool_flags")
    elif kind in ("Copy", "Move"):
        n, src, dst = a.args
        req(isinstance(n, numbers.Integral) and not isinstance(n, bool) and n >= 0, "C18.integral")
        req(src in (StorageType.RAM, StorageType.DISK), "C18.copy_source")
        req(isinstance(dst, StorageType), "C18.copy_dest")
    else:
        req(a.args == (), "C18.no_args")

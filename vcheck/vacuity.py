"""Vacuity guard (DESIGN 3.4): the reachability twin of a harness -- the same
harness with a final require(False) -- must produce a violation that survives
concrete replay.  Otherwise assumptions are unsatisfiable or the harness never
reaches its assertions, and a pass would be hollow."""
from __future__ import annotations

import multiprocessing as mp


def _twin_job(job):
    from .run import run_job
    return run_job(job)


def reachability_witness(spec, jobs, tier):
    if not jobs:
        return {"ran": False}
    by_h = {}
    for j in sorted(jobs, key=lambda j: j.get("weight", 1)):
        # one twin per harness and schedule class / lemma instance (the cheapest job of each)
        p = j["params"]
        key = (j["harness"], p.get("cls") or p.get("inst") or p.get("kind") or p.get("trajectory"))
        if p.get("n") == 1 and j["harness"] == "stream":
            continue
        by_h.setdefault(key, j)
    out = {"ran": True, "twins": []}
    twin_jobs = []
    for (h, _), j in by_h.items():
        tj = dict(j)
        tj["harness"] = h + "+twin"
        tj["name"] = j["name"] + "+twin"
        tj["fatal"] = ["VACUITY"]
        tj["max_paths"] = None
        tj["validate"] = False
        twin_jobs.append(tj)
    with mp.get_context("fork").Pool(min(16, len(twin_jobs))) as pool:
        res = pool.map(_twin_job, twin_jobs)
    for tj, d in zip(twin_jobs, res):
        hit = [f for f in d["failures"] if f["tag"].startswith("VACUITY") and f["reproduced"]]
        out["twins"].append({"job": tj["name"], "violations_reproduced": len(hit),
                             "paths": d["paths"], "status": d["status"]})
        if not hit:
            out["vacuous"] = ("reachability twin of %s produced no reproducible violation (%s %s)"
                              % (tj["name"], d["status"], d["message"][:500]))
    return out

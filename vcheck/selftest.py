"""Self-test of the engine's proxy arithmetic (python -m vcheck.selftest): random
expressions over symbolic integers / reals are evaluated (a) through the proxies
under a model and (b) directly with the model's values; both must agree.  Also
exhaustive path exploration of small programs against brute-force enumeration."""
from __future__ import annotations

import random
import sys
from fractions import Fraction as Fr

from . import symx
from .explore import explore


def _rand_expr(rng, vars_, depth, ints):
    if depth == 0 or rng.random() < 0.3:
        if rng.random() < 0.6:
            return rng.choice(vars_)
        return str(rng.randint(-6, 6)) if ints else rng.choice(["0.5", "2", "-3", "0.25", "7"])
    op = rng.choice(["+", "-", "*c", "//c", "%c", "neg"] if ints else ["+", "-", "*c", "/c", "neg"])
    a = _rand_expr(rng, vars_, depth - 1, ints)
    if op in ("+", "-"):
        return "(%s %s %s)" % (a, op, _rand_expr(rng, vars_, depth - 1, ints))
    if op == "neg":
        return "(-%s)" % a
    c = rng.choice([2, 3, 5, -2, -3, 7])
    return "(%s %s %d)" % (a, op[:-1], c)


def test_expressions(n=300, seed=1):
    rng = random.Random(seed)
    bad = 0
    for k in range(n):
        ints = rng.random() < 0.6
        vars_ = ["x", "y", "z"]
        e1 = _rand_expr(rng, vars_, 3, ints)
        e2 = _rand_expr(rng, vars_, 3, ints)
        cmpop = rng.choice(["<", "<=", "==", "!=", ">", ">="])
        src = "%s %s %s" % (e1, cmpop, e2)

        def h(ctx, src=src, ints=ints):
            env = {}
            for v in "xyz":
                env[v] = ctx.int(v, -9, 9) if ints else ctx.real(v, -9, strict=True)
                if not ints:
                    ctx.assume(env[v] < 9)
            r = bool(eval(src, {}, env))       # forks
            ctx.trace(("r", r))
        res = explore(h, {}, name="expr")
        if res.status != "ok" or not res.exhaustive:
            print("FAIL", src, res.status, res.message[:300])
            bad += 1
    return bad


def test_ratios(n=150, seed=2):
    """Ratios with a symbolic positive/negative denominator, rounding, infinities."""
    import math
    rng = random.Random(seed)
    bad = 0
    forms = ["C <= (x + y) / z", "(x - y) / z < C", "round((x + y) / z) == K", "math.floor(x / z) >= K",
             "math.ceil((x + C) / z) < K", "int((x + y) / z) != K", "(x + y) / z == C",
             "min(x / z, C) < y / 1", "float('inf') > x + y", "x * y > C", "round(x) + math.floor(y) <= K",
             "abs(x - y) >= C", "(x / 4 + y / 4) * 4 == x + y",
             # floor division / modulo of reals (python: a // b == floor(a / b))
             "(x + y) // 2 == K", "x * 3 // 2 >= K", "(x + C) // z < K", "5 // z == K", "x % 2 < C",
             "(x * 6 * y) // 2 <= K" if False else "(x + y) * 3 // 2 - x // 1 <= K", "divmod(x, 2)[0] == K"]
    for k in range(n):
        src = rng.choice(forms).replace("C", str(rng.choice([0.5, 1, 2.25, -1.5, 3]))).replace("K", str(rng.randint(-3, 4)))

        def h(ctx, src=src):
            env = {"math": math}
            for v in "xy":
                env[v] = ctx.real(v, -4, strict=False)
                ctx.assume(env[v] <= 4)
            env["z"] = ctx.real("z", -3, strict=True)
            ctx.assume(env["z"] <= 3)
            ctx.assume((env["z"] >= 0.5) | (env["z"] <= -0.5))
            r = bool(eval(src, {}, env))
            ctx.trace(("r", r))
        res = explore(h, {}, name="ratio")
        if res.status != "ok" or not res.exhaustive:
            print("FAIL", src, res.status, res.message[:300])
            bad += 1
    return bad


def test_enumeration():
    """Path exploration covers exactly the feasible outcomes (vs brute force)."""
    def prog(x, y):
        out = []
        if x // 3 > y % 4:
            out.append("a")
        if x - 2 * y == 1:
            out.append("b")
        for _ in range(max(0, min(x, 3))):
            out.append("l")
        return tuple(out)
    expected = {prog(x, y) for x in range(-5, 8) for y in range(-5, 8)}
    seen = set()

    def h(ctx):
        x = ctx.int("x", -5, 7)
        y = ctx.int("y", -5, 7)
        r = prog(x, y)
        seen.add(r)
        ctx.trace(("r", r))
    res = explore(h, {}, name="enum")
    ok = res.status == "ok" and res.exhaustive and seen == expected
    if not ok:
        print("FAIL enumeration", res.status, res.message[:300], seen ^ expected)
    return 0 if ok else 1


if __name__ == "__main__":
    bad = test_expressions(int(sys.argv[1]) if len(sys.argv) > 1 else 300)
    bad += test_ratios()
    bad += test_enumeration()
    print("selftest:", "OK" if bad == 0 else "%d FAILURES" % bad)
    sys.exit(1 if bad else 0)
